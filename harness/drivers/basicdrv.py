"""E02 driver: BASIC programs, variables areas and memory images for snapinfo.py.

Generates RAM images (a fill byte plus explicit regions), writes them into .z80 (v1/v2/v3) and .szx files with the
independent writer harness/drivers/snapfile.py, runs the real skoolkit.snapinfo.main on them (stdout captured) and
projects what was printed into small records for spec/basic/BasicCases.tla:

  --basic      every printed line as a list of Unicode code points, plus the positions of the groups {number} in it
               with the number's exact value as a normal form (sign, mantissa limbs, binary exponent)
  --variables  every printed line parsed into kind / name / dimensions / numbers (normal forms) / strings (code points)
  --peek/-word every printed line as code points
  --find*      every result line parsed into (space, address, end, distance)

Nothing here decodes BASIC: the memory image goes to TLC as it is.  The encoders below (numbers, lines, variables) are
written from the Spectrum manual ch. 24 and are themselves checked by TLC: the judge decodes what they produced and
reports harness:* clauses when a generated image is not what the generator claims.

Trusted projections: Python's float()/int() parsing of the decimal numerals that snapinfo prints and
fractions.Fraction for their exact value; ast.literal_eval for the Python list/str notation of array variables.
"""
import ast
import contextlib
import io
import os
import random
import re
from fractions import Fraction

from ..lib import cbuild
from ..lib.common import MachineryError, REPO
from . import snapfile

VARS, PROG, ELINE = 23627, 23635, 23641
TOKENS = range(165, 256)
UDGS = range(144, 165)
NONE_CLAIM = {'form': 'none', 'nf': [0, 0, 0, 0]}
UNREP = [-1, 0, 0, 0]


def _sk():
    cbuild.repo_only()
    import skoolkit.snapinfo as snapinfo
    if not os.path.abspath(snapinfo.__file__).startswith(os.path.abspath(REPO) + os.sep):
        raise MachineryError('skoolkit imported from %s, not %s' % (snapinfo.__file__, REPO))
    return snapinfo


# ------------------------------------------------------------------------------------------------
# numbers (manual ch. 24): normal form (sg, hi, lo, ex): value = (-1)^sg * (hi*65536+lo) * 2^ex, hi >= 32768
# ------------------------------------------------------------------------------------------------
def nf_exact(fr):
    """Exact normal form of a rational, or UNREP when it needs more than 32 bits of mantissa."""
    fr = Fraction(fr)
    if fr == 0:
        return [0, 0, 0, 0]
    sg = 1 if fr < 0 else 0
    fr = abs(fr)
    n, d = fr.numerator, fr.denominator
    if d & (d - 1):
        return list(UNREP)
    ex = -(d.bit_length() - 1)
    while n % 2 == 0:
        n //= 2
        ex += 1
    if n.bit_length() > 32:
        return list(UNREP)
    sh = 32 - n.bit_length()
    n <<= sh
    ex -= sh
    if not -10000 < ex < 10000:
        return list(UNREP)
    return [sg, n >> 16, n & 0xFFFF, ex]


def nf_nearest(fr):
    """Normal form of the 32-bit-mantissa number nearest to a rational."""
    fr = Fraction(fr)
    if fr == 0:
        return [0, 0, 0, 0]
    sg = 1 if fr < 0 else 0
    fr = abs(fr)
    # find ex with 2^31 <= fr / 2^ex < 2^32
    ex = fr.numerator.bit_length() - fr.denominator.bit_length() - 32
    while fr / Fraction(2) ** ex >= 2 ** 32:
        ex += 1
    while fr / Fraction(2) ** ex < 2 ** 31:
        ex -= 1
    m = fr / Fraction(2) ** ex
    n = int(m + Fraction(1, 2))
    if n == 2 ** 32:
        n >>= 1
        ex += 1
    return [sg, n >> 16, n & 0xFFFF, ex]


def nf_value(nf):
    return (-1) ** nf[0] * Fraction(nf[1] * 65536 + nf[2]) * Fraction(2) ** nf[3]


def enc_int(v):
    """Small integer form: 00, sign, low, high, 00 (-65535..65535)."""
    w = v & 0xFFFF
    return [0, 0xFF if v < 0 else 0, w & 255, w >> 8, 0]


def enc_float(nf):
    """Floating point form of a normal form: exponent byte = binary exponent of the [1/2,1) mantissa + 128."""
    sg, hi, lo, ex = nf
    e = ex + 160
    if not 1 <= e <= 255 or hi < 32768:
        raise ValueError('not encodable: %r' % (nf,))
    return [e, ((hi >> 8) & 0x7F) | (sg << 7), hi & 255, lo >> 8, lo & 255]


def enc_number(fr, prefer_int=True):
    """The five bytes the ROM would store for a value: integers up to 65535 in the small form, the rest floating point."""
    fr = Fraction(fr)
    if fr == 0 or (prefer_int and fr.denominator == 1 and -65535 <= fr <= 65535):
        return enc_int(int(fr))
    return enc_float(nf_nearest(fr))


def text_value(text):
    """The value a numeral denotes (decimal digits, point, E notation)."""
    m = re.fullmatch(r'([0-9]*)(?:\.([0-9]*))?(?:[eE]([-+]?[0-9]+))?', text)
    ip, fp, ex = m.group(1) or '', m.group(2) or '', int(m.group(3) or 0)
    return Fraction(int((ip + fp) or '0'), 10 ** len(fp)) * Fraction(10) ** ex


# ------------------------------------------------------------------------------------------------
# program text generator.  An item is a tuple: ('sp',) ('chr', c) ('udg', c) ('tok', c) ('raw', c)
# ('ctl', c, [params]) ('num', [5 bytes], claim)
# ------------------------------------------------------------------------------------------------
def item_bytes(it):
    k = it[0]
    if k == 'sp':
        return [32]
    if k == 'ctl':
        return [it[1]] + list(it[2])
    if k == 'num':
        return [14] + list(it[1])
    return [it[1]]


def chars(s):
    return [('sp',) if ch == ' ' else ('chr', ord(ch)) for ch in s]


INTS = (0, 1, 2, 7, 9, 10, 13, 14, 99, 100, 255, 256, 1000, 9999, 10000, 16383, 16384, 32767, 32768, 65535)
CLEAN_SEPS = ('=', ',', '(', ':', ';', ' ', '*', '/', '<', '>')


def gen_numeral(rng):
    """-> (items, kind).  A numeral, its marker and five bytes, with the claim about what the digits denote."""
    kind = rng.choice(('int', 'int', 'int', 'intf', 'dec', 'dec', 'dec', 'gross', 'gross', 'near', 'far', 'bin', 'bingross', 'junk'))
    if kind in ('bin', 'bingross'):
        nb = rng.randint(1, 16)
        bits = ''.join(rng.choice('01') for _ in range(nb))
        v = int(bits, 2)
        hidden = v if kind == 'bin' else rng.choice((v + 1, v * 2 + 3, int(bits) if int(bits) <= 65535 and int(bits) != v else v + 7))
        its = [('tok', 196)] + [('sp',)] * rng.choice((0, 0, 1)) + chars(bits)
        its.append(('num', enc_number(hidden), {'form': 'bin', 'nf': nf_exact(v)}))
        return its, kind
    if kind == 'int':
        v = rng.choice(INTS) if rng.random() < 0.5 else rng.randrange(65536)
        text = str(v)
        if len(text) < 5 and rng.random() < 0.15:
            text = '0' * rng.randint(1, 5 - len(text)) + text
        b5 = enc_int(v) if v == 0 or rng.random() < 0.8 else enc_float(nf_nearest(v))
        return chars(text) + [('num', b5, {'form': 'int', 'nf': nf_exact(v)})], kind
    if kind == 'intf':
        v = rng.choice((65536, 65537, 100000, 16777216, 4294967295, 4294967296, 123456789, 10 ** 12)) if rng.random() < 0.5 else rng.randrange(65536, 10 ** 10)
        return chars(str(v)) + [('num', enc_number(v), {'form': 'dec', 'nf': nf_nearest(v)})], kind
    # decimal forms
    ip = str(rng.randrange(1000)) if rng.random() < 0.8 else ''
    fp = ''.join(rng.choice('0123456789') for _ in range(rng.randint(0 if ip else 1, 6)))
    text = ip + ('.' + fp if fp or rng.random() < 0.2 else '')
    if text in ('', '.'):
        text = '0.5'
    if rng.random() < 0.45:
        text += rng.choice('eE') + rng.choice(('', '', '+', '-')) + str(rng.randrange(0, 31))
    val = text_value(text)
    near = nf_nearest(val)
    if kind == 'dec':
        return chars(text) + [('num', enc_number(val, rng.random() < 0.8), {'form': 'dec', 'nf': near})], kind
    if kind in ('near', 'far'):
        if val == 0:
            return chars(text) + [('num', enc_int(0), {'form': 'dec', 'nf': near})], 'dec'
        d = rng.choice((-1, 1)) if kind == 'near' else rng.choice((-1, 1)) * rng.choice((3, 5, 100, 4000, 70000))
        m = near[1] * 65536 + near[2] + d
        m = min(max(m, 2 ** 31), 2 ** 32 - 1)
        nf = [near[0], m >> 16, m & 0xFFFF, near[3]]
        return chars(text) + [('num', enc_float(nf), {'form': 'dec', 'nf': near})], kind
    if kind == 'gross':
        other = rng.choice((0, 1, -1, 10, 20, -10, 65535, -65535, Fraction(1, 2), Fraction(-1, 3), Fraction(10) ** 10, Fraction(1, 10 ** 10),
                            val * 2, -val, val + 1, val * Fraction(1001, 1000)))
        return chars(text) + [('num', enc_number(other, rng.random() < 0.8), {'form': 'dec', 'nf': near})], kind
    # junk: five arbitrary bytes after the numeral, no claim
    return chars(text) + [('num', [rng.randrange(256) for _ in range(5)], dict(NONE_CLAIM))], kind


def rand_token(rng, st):
    """Every token code turns up: a shared cursor walks 165..255, mixed with random picks."""
    if rng.random() < 0.5:
        st['tok'] = 165 + (st['tok'] - 165 + 1) % 91
        return st['tok']
    return rng.choice(TOKENS)


PRINTABLE = [c for c in range(33, 128)]


def gen_string_items(rng, st, n):
    """The inside of a string literal / REM: characters, tokens, UDGs, block graphics, control codes with parameters."""
    its = []
    for _ in range(n):
        r = rng.random()
        if r < 0.40:
            its.append(('chr', rng.choice(PRINTABLE)))
        elif r < 0.50:
            its.append(('sp',))
        elif r < 0.62:
            its.append(('tok', rand_token(rng, st)))
        elif r < 0.70:
            its.append(('udg', rng.choice(UDGS)))
        elif r < 0.78:
            its.append(('raw', rng.choice(list(range(128, 144)))))
        elif r < 0.86:
            c = rng.randrange(16, 24)
            its.append(('ctl', c, [rng.choice((0, 1, 7, 8, 9, 13, 14, 32, 65, 255, rng.randrange(256))) for _ in range(1 if c < 22 else 2)]))
        elif r < 0.93:
            its.append(('raw', rng.choice([c for c in range(32) if c not in (13, 14) and not 16 <= c <= 23])))
        else:
            its.append(('chr', rng.choice((94, 96, 127, 123, 125, 34))))
    return its


def gen_line_items(rng, st):
    """One well-formed line's text as items."""
    kind = rng.choice(('stmt', 'stmt', 'stmt', 'rem', 'rembytes', 'tokens', 'string'))
    its = []
    if kind == 'rem':
        its = [('tok', 234)] + gen_string_items(rng, st, rng.randint(0, 14))
    elif kind == 'rembytes':
        its = [('tok', 234)]
        for _ in range(rng.randint(1, 12)):
            b = rng.randrange(256)
            if b == 13:
                continue
            if b == 14:
                its.append(('num', [rng.choice((13, 14, rng.randrange(256))) for _ in range(5)], dict(NONE_CLAIM)))
            elif 16 <= b <= 23:
                its.append(('ctl', b, [rng.choice((13, 14, rng.randrange(256))) for _ in range(1 if b < 22 else 2)]))
            elif b == 32:
                its.append(('sp',))
            elif 33 <= b <= 127:
                its.append(('chr', b))
            elif 144 <= b <= 164:
                its.append(('udg', b))
            elif b >= 165:
                its.append(('tok', b))
            else:
                its.append(('raw', b))
    elif kind == 'tokens':
        for _ in range(rng.randint(1, 8)):
            r = rng.random()
            if r < 0.6:
                its.append(('tok', rand_token(rng, st)))
            elif r < 0.75:
                its.append(('sp',))
            elif r < 0.9:
                its.append(('chr', rng.choice(PRINTABLE)))
            else:
                its.append(('udg', rng.choice(UDGS)))
    elif kind == 'string':
        its = [('tok', rng.choice((245, 238, 241, 239, 248)))] + chars('"') + gen_string_items(rng, st, rng.randint(0, 10)) + chars('"')
    else:
        its = [('tok', rng.choice((245, 241, 250, 236, 237, 244, 246, 252, 235, 231, 242, 247, 249, 253, 228, 233, rand_token(rng, st))))]
        for _ in range(rng.randint(1, 5)):
            r = rng.random()
            if r < 0.55:
                sep = rng.choice(CLEAN_SEPS)
                if its[-1][0] != 'tok' or rng.random() < 0.5:
                    its += chars(sep)
                nits, nk = gen_numeral(rng)
                st['numkinds'][nk] = st['numkinds'].get(nk, 0) + 1
                if nits[0] != ('tok', 196):
                    # digits after BIN (spaces apart) are binary digits: keep other numerals away from it
                    k = len(its) - 1
                    while k >= 0 and its[k][0] == 'sp':
                        k -= 1
                    if k >= 0 and its[k] == ('tok', 196):
                        its += chars('(')
                its += nits
            elif r < 0.70:
                its += chars(rng.choice(('a', 'x', 'i', 'a$', 'n1', 'total'))) + chars(rng.choice(('=', '+', '-', '*', ',')))
            elif r < 0.85:
                its.append(('tok', rand_token(rng, st)))
            elif r < 0.93:
                its += chars('"') + gen_string_items(rng, st, rng.randint(0, 5)) + chars('"')
            else:
                its += [('sp',)] * rng.randint(1, 2)
    # the matcher's one ambiguity: a number marker must not be followed (spaces apart) by a literal '{'
    out = []
    for it in its:
        if it == ('chr', 123):
            k = len(out) - 1
            while k >= 0 and out[k][0] == 'sp':
                k -= 1
            if k >= 0 and out[k][0] == 'num':
                continue
        out.append(it)
    return out


def enc_line(no, its, length=None):
    body = [b for it in its for b in item_bytes(it)] + [13]
    n = len(body) if length is None else length
    return [no >> 8, no & 255, n & 255, n >> 8] + body


def line_claims(its):
    return [it[2] for it in its if it[0] == 'num']


def gen_line_no(rng):
    return rng.choice((0, 1, 9, 10, 99, 100, 999, 1000, 9999, 10000, 12345, 16383)) if rng.random() < 0.4 else rng.randrange(0, 10000)


# ------------------------------------------------------------------------------------------------
# variables area generator.  A variable is a dict(kind, name, dims, nums: [5 bytes], strs: [[bytes]], line, stmt)
# ------------------------------------------------------------------------------------------------
def gen_value(rng):
    r = rng.random()
    if r < 0.35:
        return enc_int(rng.choice((0, 1, -1, 255, -255, 256, 65535, -65535, 32768, -32768, rng.randrange(-65535, 65536))))
    if r < 0.55:
        # fractional / negative / large, correctly rounded
        fr = Fraction(rng.randrange(-10 ** 6, 10 ** 6), rng.choice((1, 2, 3, 7, 10, 1000, 10 ** 6))) * Fraction(10) ** rng.randint(-12, 12)
        return enc_number(fr) if fr else enc_int(0)
    # any exponent / mantissa bytes
    e = rng.choice((1, 2, 127, 128, 129, 159, 160, 161, 192, 254, 255, rng.randrange(1, 256)))
    m = [rng.choice((0, 0x7F, 0x80, 0xFF, rng.randrange(256))) for _ in range(4)]
    return [e] + m


def gen_var_string(rng, st, n):
    out = []
    for _ in range(n):
        r = rng.random()
        if r < 0.5:
            out.append(rng.choice(PRINTABLE + [32, 32, 32]))
        elif r < 0.7:
            out.append(rand_token(rng, st))
        elif r < 0.8:
            out.append(rng.choice(UDGS))
        else:
            out.append(rng.randrange(256))
    return out


def gen_var(rng, st, letter):
    kind = rng.choice(('num', 'num', 'long', 'long', 'str', 'str', 'for', 'numarr', 'numarr', 'chrarr', 'chrarr'))
    v = dict(kind=kind, name=[96 + letter], dims=[], nums=[], strs=[], line=0, stmt=0)
    if kind == 'num':
        v['nums'] = [gen_value(rng)]
    elif kind == 'long':
        v['kind'] = 'num'
        v['name'] += [ord(rng.choice('abcdefghijklmnopqrstuvwxyz0123456789')) for _ in range(rng.randint(1, 6))]
        v['nums'] = [gen_value(rng)]
    elif kind == 'str':
        v['strs'] = [gen_var_string(rng, st, rng.choice((0, 1, 2, 5, 9, rng.randint(0, 20))))]
    elif kind == 'for':
        v['nums'] = [gen_value(rng) for _ in range(3)]
        v['line'] = rng.choice((0, 1, 10, 9999, 65535, rng.randrange(65536)))
        v['stmt'] = rng.choice((0, 1, 2, 127, 255, rng.randrange(256)))
    elif kind == 'numarr':
        v['dims'] = rng.choice(([1], [2], [3], [5], [1, 1], [2, 3], [3, 2], [2, 2, 2], [1, 3, 2], [4, 1]))
        n = 1
        for d in v['dims']:
            n *= d
        v['nums'] = [gen_value(rng) for _ in range(n)]
    else:
        v['dims'] = rng.choice(([1], [3], [8], [1, 1], [2, 3], [3, 1], [2, 2, 2], [3, 4]))
        n = 1
        for d in v['dims'][:-1]:
            n *= d
        v['strs'] = [gen_var_string(rng, st, v['dims'][-1]) for _ in range(n)]
    return v


def w2(n):
    return [n & 255, n >> 8]


def enc_var(v):
    """Manual ch. 24, the six pictures."""
    li = v['name'][0] - 96
    k = v['kind']
    if k == 'num' and len(v['name']) == 1:
        return [0x60 + li] + v['nums'][0]
    if k == 'num':
        return [0xA0 + li] + v['name'][1:-1] + [0x80 | v['name'][-1]] + v['nums'][0]
    if k == 'str':
        return [0x40 + li] + w2(len(v['strs'][0])) + v['strs'][0]
    if k == 'for':
        return [0xE0 + li] + v['nums'][0] + v['nums'][1] + v['nums'][2] + w2(v['line']) + [v['stmt']]
    dims = [b for d in v['dims'] for b in w2(d)]
    if k == 'numarr':
        data = [b for n in v['nums'] for b in n]
        return [0x80 + li] + w2(1 + len(dims) + len(data)) + [len(v['dims'])] + dims + data
    data = [b for s in v['strs'] for b in s]
    return [0xC0 + li] + w2(1 + len(dims) + len(data)) + [len(v['dims'])] + dims + data


# ------------------------------------------------------------------------------------------------
# RAM images and files
# ------------------------------------------------------------------------------------------------
def split_regions(regions, page):
    """[(address, bytes)] in the 64K view -> [{bank, off, bytes}] (pieces cut at 16K boundaries)."""
    out = []
    for base, data in regions:
        data = list(data)
        i = 0
        while i < len(data):
            a = base + i
            if a < 16384 or a > 65535:
                raise MachineryError('region outside RAM: %d' % a)
            slot = a >> 14
            bank = (None, 5, 2, page)[slot]
            n = min(len(data) - i, ((slot + 1) << 14) - a)
            out.append({'bank': bank, 'off': a & 0x3FFF, 'bytes': data[i:i + n]})
            i += n
    return out


def build_banks(machine, fill, bregs):
    banks = {b: bytearray([fill]) * 16384 for b in ((5, 2, 0) if machine == '48K' else range(8))}
    seen = set()
    for r in bregs:
        for k in range(len(r['bytes'])):
            if (r['bank'], r['off'] + k) in seen:
                raise MachineryError('overlapping regions')
            seen.add((r['bank'], r['off'] + k))
        banks[r['bank']][r['off']:r['off'] + len(r['bytes'])] = bytes(r['bytes'])
    return {b: bytes(v) for b, v in banks.items()}


FORMATS = (('z80', 1, True), ('z80', 1, False), ('z80', 2, True), ('z80', 2, False), ('z80', 3, True), ('z80', 3, False),
           ('szx', 0, True), ('szx', 0, False))


def write_snapshot(path_base, rng, machine, banks, o7ffd=0, fmt=None):
    if fmt is None:
        fmt = rng.choice(FORMATS if machine == '48K' else FORMATS[2:])
    s = dict(a=rng.randrange(256), f=rng.randrange(256), bc=rng.randrange(65536), de=rng.randrange(65536), hl=rng.randrange(65536), a2=0, f2=0,
             bc2=0, de2=0, hl2=0, ix=0, iy=23610, sp=rng.randrange(23552, 65536), pc=rng.randrange(1, 65536), i=63, r=rng.randrange(256), iff1=1,
             iff2=1, im=1, border=rng.randrange(8), issue2=0, tstates=rng.randrange(69888), machine=machine, o7ffd=o7ffd, banks=banks)
    if fmt[0] == 'szx':
        data = snapfile.write_szx(s, compress=fmt[2])
    else:
        data = snapfile.write_z80(s, version=fmt[1], compress=fmt[2])
    path = '%s.%s' % (path_base, fmt[0])
    with open(path, 'wb') as f:
        f.write(data)
    return path, '%s%s%s' % (fmt[0], fmt[1] or '', 'c' if fmt[2] else 'u')


def run_snapinfo(args):
    """-> (stdout text, error description or '')"""
    snapinfo = _sk()
    out, err = io.StringIO(), io.StringIO()
    try:
        with contextlib.redirect_stdout(out), contextlib.redirect_stderr(err):
            snapinfo.main(list(args))
    except SystemExit as e:
        return out.getvalue(), 'exit:%s:%s' % (e.code, err.getvalue().strip()[-160:])
    except Exception as e:
        return out.getvalue(), '%s:%s' % (type(e).__name__, str(e)[:160])
    return out.getvalue(), ''


def out_lines(text):
    """print() output -> lines (the listing of an empty program is one empty line)."""
    if text.endswith('\n'):
        text = text[:-1]
    if text == '':
        return []
    return text.split('\n')


MAXLINE = 1500          # code points of one printed line handed to TLC
MAXROWS = 3000          # result rows of a search handed to TLC (the rest is counted in `more`)


def codes(s):
    return [ord(ch) for ch in s[:MAXLINE]]


def cap(lines, expected, slack=20):
    """A broken snapinfo may print without end; TLC only needs enough lines to see that there are too many."""
    return lines[:expected + slack]


# ------------------------------------------------------------------------------------------------
# projections of what snapinfo printed
# ------------------------------------------------------------------------------------------------
_NUMERAL = re.compile(r'-?(?:[0-9]+(?:\.[0-9]*)?|\.[0-9]+)(?:e[-+]?[0-9]+)?|-?inf|nan')
_GROUP = re.compile(r'\{([^{}]*)\}')


def numeral_nf(text):
    """Exact value of a numeral printed by Python (int or float repr) as a normal form."""
    if not _NUMERAL.fullmatch(text) or 'inf' in text or 'nan' in text:
        return list(UNREP)
    if re.fullmatch(r'-?[0-9]+', text):
        return nf_exact(int(text))
    return nf_exact(Fraction(float(text)))


def number_groups(line):
    out = []
    for m in _GROUP.finditer(line):
        if _NUMERAL.fullmatch(m.group(1)):
            out.append({'pos': m.start() + 1, 'end': m.end(), 'nf': numeral_nf(m.group(1))})
    return out


def _shape(x):
    """Nested list -> (shape, flat leaves) or None when ragged."""
    if not isinstance(x, list):
        return [], [x]
    if not x:
        return None
    subs = [_shape(e) for e in x]
    if any(s is None for s in subs) or any(s[0] != subs[0][0] for s in subs):
        return None
    return [len(x)] + subs[0][0], [leaf for s in subs for leaf in s[1]]


def _num_nf(x):
    if isinstance(x, bool) or not isinstance(x, (int, float)):
        return None
    if isinstance(x, int):
        return nf_exact(x)
    if x != x or x in (float('inf'), float('-inf')):
        return list(UNREP)
    return nf_exact(Fraction(x))


UNPARSED = dict(kind='unparsed', name=[], dims=[], shape=[], nums=[], strs=[], line=0, stmt=0)
_V_CHRARR = re.compile(r'([a-z])\$\(([0-9]+(?:,[0-9]+)*)\)=(.*)')
_V_STR = re.compile(r'([a-z])\$="(.*)"')
_V_NUMARR = re.compile(r'([a-z])\(([0-9]+(?:,[0-9]+)*)\)=(\[.*\])')
_V_FOR = re.compile(r'([a-z])=(\S+) \(limit=(\S+), step=(\S+), line=([0-9]+), statement=([0-9]+)\)')
_V_NUM = re.compile(r'([a-z][\x00-\x7f]*?)=(\S+)')


def parse_var_line(line):
    """One line of `snapinfo.py --variables` in its observable layout -> record."""
    rec = dict(UNPARSED)
    m = _V_CHRARR.fullmatch(line)
    if m:
        try:
            val = ast.literal_eval(m.group(3))
        except (ValueError, SyntaxError):
            return rec
        sh = _shape(val)
        if sh is None or not all(isinstance(s, str) for s in sh[1]):
            return rec
        rec.update(kind='chrarr', name=[ord(m.group(1))], dims=[int(d) for d in m.group(2).split(',')], shape=sh[0], strs=[codes(s) for s in sh[1]])
        return rec
    m = _V_STR.fullmatch(line)
    if m:
        rec.update(kind='str', name=[ord(m.group(1))], strs=[codes(m.group(2))])
        return rec
    m = _V_NUMARR.fullmatch(line)
    if m:
        try:
            val = ast.literal_eval(m.group(3))
        except (ValueError, SyntaxError):
            return rec
        sh = _shape(val)
        if sh is None:
            return rec
        nums = [_num_nf(x) for x in sh[1]]
        if any(n is None for n in nums):
            return rec
        rec.update(kind='numarr', name=[ord(m.group(1))], dims=[int(d) for d in m.group(2).split(',')], shape=sh[0], nums=nums)
        return rec
    m = _V_FOR.fullmatch(line)
    if m:
        rec.update(kind='for', name=[ord(m.group(1))], nums=[numeral_nf(m.group(k)) for k in (2, 3, 4)], line=int(m.group(5)), stmt=int(m.group(6)))
        return rec
    m = _V_NUM.fullmatch(line)
    if m:
        rec.update(kind='num', name=codes(m.group(1)), nums=[numeral_nf(m.group(2))])
        return rec
    return rec


_F_48 = re.compile(r'([0-9]+)-([0-9]+)-([0-9]+) ([0-9A-F]{4})-([0-9A-F]{4})-([0-9A-F]+): (.*)')
_F_128 = re.compile(r'([0-7]):([0-9]{5})-([0-9]{5})-([0-9]+) ([0-7]):([0-9A-F]{4})-([0-9A-F]{4})-([0-9A-F]+): (.*)')
_T_48 = re.compile(r'([0-9]+)-([0-9]+) ([0-9A-F]{4})-([0-9A-F]{4}): (.*)', re.S)
_T_128 = re.compile(r'([0-7]):([0-9]{5})-([0-9]{5}) ([0-7]):([0-9A-F]{4})-([0-9A-F]{4}): (.*)', re.S)


def parse_find_lines(lines, allbanks, text=None, seqtext=None):
    """-> (rows [space, address, end, distance], fmtbad) or None when a line is not a result line at all."""
    rows, bad = [], 0
    for ln in lines[:MAXROWS]:
        if text is None:
            m = (_F_128 if allbanks else _F_48).fullmatch(ln)
            if not m:
                return None
            g = m.groups()
            if allbanks:
                sp, a, e, s = int(g[0]) + 1, int(g[1]), int(g[2]), int(g[3])
                if (int(g[4]), int(g[5], 16), int(g[6], 16), int(g[7], 16)) != (sp - 1, a, e, s) or g[8] != seqtext:
                    bad = 1
            else:
                sp, a, e, s = 0, int(g[0]), int(g[1]), int(g[2])
                if (int(g[3], 16), int(g[4], 16), int(g[5], 16)) != (a, e, s) or g[6] != seqtext:
                    bad = 1
        else:
            m = (_T_128 if allbanks else _T_48).fullmatch(ln)
            if not m:
                return None
            g = m.groups()
            if allbanks:
                sp, a, e, s = int(g[0]) + 1, int(g[1]), int(g[2]), 1
                if (int(g[3]), int(g[4], 16), int(g[5], 16)) != (sp - 1, a, e) or g[6] != text:
                    bad = 1
            else:
                sp, a, e, s = 0, int(g[0]), int(g[1]), 1
                if (int(g[2], 16), int(g[3], 16)) != (a, e) or g[4] != text:
                    bad = 1
        rows.append([sp, a, e, s])
    return rows, bad


# ------------------------------------------------------------------------------------------------
# jobs (run in worker processes): one RAM image, one file, a few invocations -> cases
# ------------------------------------------------------------------------------------------------
def _machine(rng, p128=0.2):
    if rng.random() < p128:
        page = rng.choice((0, 1, 3, 4, 6, 7))
        return '128K', page, page | rng.choice((0, 8, 16, 24))
    return '48K', 0, 0


def _case(kind, key, fill, bregs, page, **kw):
    c = dict(kind=kind, key=key, fill=fill, bregs=bregs, page=page, err='', wf=1)
    c.update(kw)
    return c


def program_job(job):
    """A program area + a variables area; `snapinfo -b` and `snapinfo -v` on the same file."""
    wd, n, sd, flavour = job
    rng = random.Random(sd * 1000003 + n)
    st = {'tok': 165 + (n * 7) % 91, 'numkinds': {}}
    machine, page, o7ffd = _machine(rng)
    fill = rng.choice((0, 0, 255, 128, rng.randrange(256)))
    lines = []
    no = gen_line_no(rng) if rng.random() < 0.5 else rng.randrange(0, 100)
    for _ in range(rng.choice((0, 1, 1, 2, 3, 4, 6)) if flavour != 'empty' else 0):
        lines.append((no, gen_line_items(rng, st)))
        no = min(16383, no + rng.choice((0, 1, 10, 10, 10, 100, 1000, 5000)))      # LIST does not care about order
    letters = rng.sample(range(1, 27), rng.choice((0, 1, 2, 3, 5)))
    variables = [gen_var(rng, st, li) for li in letters]
    prog_bytes = [b for no_, its in lines for b in enc_line(no_, its)]
    var_bytes = [b for v in variables for b in enc_var(v)] + [128]
    wf_prog, wf_vars = 1, 1
    tail = [rng.randrange(256) for _ in range(rng.choice((0, 3, 8)))]          # the editing area: anything
    # ---- ill-formed flavours (never judged beyond the well-formed prefix; they must not crash) -------------
    if flavour == 'cr' and lines:
        k = rng.randrange(len(lines))
        its = list(lines[k][1])
        its.insert(rng.randint(0, len(its)), ('raw', 13))
        lines[k] = (lines[k][0], its)
        prog_bytes = [b for no_, its_ in lines for b in enc_line(no_, its_)]
        wf_prog = 0
    elif flavour == 'cut' and lines:
        k = rng.randrange(len(lines))
        its = list(lines[k][1]) + [rng.choice((('raw', 14), ('raw', 16), ('raw', 22), ('raw', 23)))]
        if its[-1] == ('raw', 14):
            its += [('chr', 48)] * rng.randint(0, 4)
        lines[k] = (lines[k][0], its)
        prog_bytes = [b for no_, its_ in lines for b in enc_line(no_, its_)]
        wf_prog = 0
    elif flavour == 'len' and lines:
        k = rng.randrange(len(lines))
        enc = [enc_line(no_, its_) for no_, its_ in lines]
        true = len(enc[k]) - 4
        enc[k] = enc_line(lines[k][0], lines[k][1], length=rng.choice((0, 1, true - 1, true + 1, true + 40, 65535)) if true > 1 else 0)
        prog_bytes = [b for e in enc for b in e]
        wf_prog = 0
    # ---- placement -----------------------------------------------------------------------------------------
    total = len(prog_bytes) + len(var_bytes)
    place = rng.choice(('std', 'std', 'any', 'top', 'cross'))
    if flavour == 'truncated':
        place = 'top'
    if place == 'std':
        prog = 23755
    elif place == 'any':
        prog = rng.randrange(23700, 65000 - total)
    elif place == 'cross':
        b = rng.choice((32768, 49152))
        prog = b - rng.randint(1, max(1, total - 1))
    else:
        prog = 65536 - total
        tail = []
    data = prog_bytes + var_bytes + tail
    vars_ = prog + len(prog_bytes)
    eline = (vars_ + len(var_bytes)) & 0xFFFF
    if flavour == 'truncated':
        cut = rng.randint(1, max(1, min(len(prog_bytes) - 1, 30))) if prog_bytes else 0
        prog = 65536 - (len(prog_bytes) - cut) if prog_bytes else 65535
        data = prog_bytes[:len(prog_bytes) - cut] if prog_bytes else [rng.randrange(64)]
        vars_ = rng.choice((0, 65535, 65535, 65535))
        wf_prog, wf_vars = 0, 0
    elif flavour == 'prog65535':
        prog, data = 65535, [rng.choice((0, 39, 63, 64, 128, 255))]
        vars_ = 65535
        lines, variables = [], []
        wf_prog, wf_vars = (1 if data[0] >= 64 else 0), (1 if data[0] == 128 else 0)
    sysv = [rng.randrange(256) for _ in range(16)]
    sysv[0:2] = w2(vars_)
    sysv[8:10] = w2(prog)
    sysv[14:16] = w2(eline)
    regions = [(VARS, sysv), (prog, data)]
    bregs = split_regions(regions, page)
    banks = build_banks(machine, fill, bregs)
    path, fmt = write_snapshot(os.path.join(wd, 'p%d' % n), rng, machine, banks, o7ffd)
    cases = []
    # --basic
    text, err = run_snapinfo(['-b', path])
    obs = cap(out_lines(text), len(lines))
    if not wf_prog:
        obs = obs[:len(lines) + 1]          # only the lines before the first ill-formed one are judged
    key = 'basic:%s:%s:%s:%s' % (flavour, machine, fmt, place)
    cases.append(_case('basic', key, fill, bregs, page, err=err, wf=wf_prog, out=[codes(s) for s in obs],
                       nums=[number_groups(s) for s in obs], numtxt=[line_claims(its) for _, its in lines],
                       info=dict(n=n, seed=sd, file=os.path.basename(path), prog=prog, vars=vars_, text=text[:600],
                                 numkinds=st['numkinds'], tokens=sorted({it[1] for _, its in lines for it in its if it[0] == 'tok'}),
                                 nlines=len(lines), lineno_big=int(any(no_ > 9999 for no_, _ in lines)))))
    # --variables
    text, err = run_snapinfo(['-v', path])
    obs = cap(out_lines(text), len(variables)) if wf_vars else []   # an ill-formed area is judged for nothing but (as drift) not crashing
    key = 'vars:%s:%s:%s:%s' % (flavour, machine, fmt, place)
    cases.append(_case('vars', key, fill, bregs, page, err=err, wf=wf_vars, out=[parse_var_line(s) for s in obs],
                       info=dict(n=n, seed=sd, file=os.path.basename(path), prog=prog, vars=vars_, text=text[:600],
                                 kinds=sorted({(v['kind'] if len(v['name']) == 1 else 'long') for v in variables}),
                                 tokens=sorted({b for v in variables for s in v['strs'] for b in s if b >= 165}))))
    os.remove(path)
    return cases


def _plant(rng, fill, alphabet, n):
    return [rng.choice(alphabet) for _ in range(n)]


def memory_job(job):
    """A sparse RAM image; --peek, --word, --find, --find-text, --find-tile on it."""
    wd, n, sd, flavour = job
    rng = random.Random(sd * 7000003 + n)
    machine, page, o7ffd = _machine(rng, 0.3)
    allbanks = 1 if machine == '128K' and rng.random() < 0.6 else 0
    if page == 7:
        o7ffd &= ~8                                          # the shadow screen is not also the paged bank here
    fill = rng.choice((0, 0, 0, 255, rng.randrange(256)))
    others = [b for b in (range(33, 127) if rng.random() < 0.5 else range(256)) if b != fill and b != 45]
    alpha = [fill] + rng.sample(others, 2)                  # a small alphabet so that sequences recur
    # ---- regions in the 64K view (cut into banks below); a busy tile on screen --------------------------------
    x, y = rng.randrange(32), rng.randrange(24)
    taddr = 16384 + 2048 * (y // 8) + 32 * (y % 8) + x
    tile = [rng.choice(alpha) for _ in range(8)]
    if all(b == fill for b in tile):
        tile[rng.randrange(8)] = alpha[1]
    regions = {}

    def put(a, data):
        for k, b in enumerate(data):
            if 16384 <= a + k <= 65535:
                regions[a + k] = b
    # where things are planted: start of RAM above the screen, bank boundaries, the very end of memory
    spots = [23296, rng.randrange(23400, 32000), 32768 - rng.randint(1, 12), 49152 - rng.randint(1, 12), rng.randrange(50000, 65000),
             65536 - rng.randint(4, 40)]
    rng.shuffle(spots)
    for a in spots[:rng.randint(2, 4)]:
        put(a, _plant(rng, fill, alpha, rng.randint(6, 36)))
    if flavour == 'end' or rng.random() < 0.4:
        put(65536 - rng.randint(8, 30), _plant(rng, fill, alpha[1:], 30))          # dense up to the last byte
    # copies of the tile elsewhere, with various distances between the bytes
    dists = []
    for _ in range(rng.randint(1, 3)):
        d = rng.choice((1, 1, 2, 3, 32, 256))
        a = rng.choice((23296, rng.randrange(24000, 60000), 65536 - 7 * d - 1 - rng.choice((0, 0, 1, 5))))
        for k in range(8):
            put(a + k * d, [tile[k]])
        dists.append(d)
    scr = 7 if (allbanks and o7ffd & 8) else 5
    for k in range(8):
        if scr == 5:
            regions[taddr + 256 * k] = tile[k]
    # regions -> sorted runs
    runs = []
    for a in sorted(regions):
        if runs and runs[-1][0] + len(runs[-1][1]) == a and (a & 0x3FFF):
            runs[-1][1].append(regions[a])
        else:
            runs.append((a, [regions[a]]))
    bregs = split_regions(runs, page)
    if scr == 7:
        bregs += [{'bank': 7, 'off': taddr - 16384 + 256 * k, 'bytes': [tile[k]]} for k in range(8)]
    if machine == '128K':
        # something in a bank that is not paged in: only an all-banks search sees it
        hidden = rng.choice([b for b in range(8) if b not in (5, 2, page, 7)])
        bregs.append({'bank': hidden, 'off': rng.choice((0, 100, 16384 - 20)), 'bytes': _plant(rng, fill, alpha[1:], 20)})
    banks = build_banks(machine, fill, bregs)
    path, fmt = write_snapshot(os.path.join(wd, 'm%d' % n), rng, machine, banks, o7ffd)
    popt = [] if allbanks or machine == '48K' else ['-P', str(page)]
    info = dict(n=n, seed=sd, file=os.path.basename(path), machine=machine, fmt=fmt, page=page, o7ffd=o7ffd)
    cases = []
    addrs = sorted(regions)
    # ---- --peek / --word (never all-banks: these read the 64K view) --------------------------------------------
    for kind in ('peek', 'word'):
        specs, args, open_ = [], [], 0
        for _ in range(rng.randint(1, 3)):
            a = rng.choice(addrs) - rng.randint(0, 3)
            a = max(16384, a)
            form = rng.randrange(3)
            b = a if form == 0 else min(65535 if kind == 'peek' else 65534, a + rng.randint(0, 24))
            c = (1 if kind == 'peek' else 2) if form < 2 else rng.choice((1, 2, 3, 5, 7, 256))
            if kind == 'word' and a > 65534:
                a = b = 65534
            hexa = rng.random() < 0.3
            f = (lambda v: '0x%X' % v) if hexa else str
            specs.append([a, b, c])
            if kind == 'word' and form == 1 and b > a:
                open_ = 1                                  # the default step of --word is not documented
            args += ['-p' if kind == 'peek' else '-w', '-'.join([f(a)] + ([f(b)] if form >= 1 else []) + ([f(c)] if form == 2 else []))]
        if kind == 'peek' and flavour == 'chars':
            # every character class through --peek: plant was random, so walk a dedicated table instead
            pass
        pp = [] if machine == '48K' else ['-P', str(page)]
        text, err = run_snapinfo(args + pp + [path])
        nrows = sum((b_ - a_) // c_ + 1 for a_, b_, c_ in specs if b_ >= a_)
        cases.append(_case(kind, '%s:%s:%s' % (kind, machine, fmt), fill, bregs, page, err=err, specs=specs, open=open_,
                           out=[codes(s) for s in cap(out_lines(text), nrows)],
                           info=dict(info, args=args + pp, text=text[:400])))
    # ---- --find ---------------------------------------------------------------------------------------------------
    lo = 16384
    for q in range(2):
        ln = rng.choice((1, 2, 2, 3, 4))
        if rng.random() < 0.7 and addrs:
            a = rng.choice(addrs)
            d = rng.choice((1, 1, 2, 3))
            seq = [regions.get(a + k * d, fill) for k in range(ln)]
        else:
            seq = [rng.choice(alpha) for _ in range(ln)]
        if all(b == fill for b in seq):
            seq[rng.randrange(ln)] = alpha[1]
        form = rng.randrange(3)
        m_, n_ = (1, 1) if form == 0 else (rng.choice((1, 2, 3)),) * 2 if form == 1 else (rng.choice((1, 2)), rng.choice((2, 3, 4, 5)))
        if form == 2 and rng.random() < 0.05:
            m_, n_ = 3, 2                                    # an empty range of distances: nothing to report
        hexa = rng.random() < 0.3
        seqtext = ','.join(('0x%02X' % b) if hexa else str(b) for b in seq)
        arg = seqtext + ('' if form == 0 else '-%d' % m_ if form == 1 else '-%d-%d' % (m_, n_))
        text, err = run_snapinfo(['-f', arg] + popt + [path])
        nres = len(out_lines(text))
        parsed = parse_find_lines(out_lines(text), allbanks, seqtext=seqtext)
        cases.append(_case('find', 'find:%s:%s:%s' % (machine, 'all' if allbanks else 'view', fmt), fill, bregs, page,
                           err=err or ('' if parsed is not None else 'unparsed-output'), seq=seq, m=m_, n=n_, lo=lo, allbanks=allbanks, shadow=0,
                           x=0, y=0, pic=[], out=parsed[0] if parsed else [], fmtbad=parsed[1] if parsed else 0, more=max(0, nres - MAXROWS),
                           info=dict(info, args=['-f', arg] + popt, text=text[:400])))
    # ---- --find-text ------------------------------------------------------------------------------------------------
    printable = [a for a in addrs if 33 <= regions[a] <= 126 and regions[a] != 45]
    # plant is over an arbitrary alphabet; search for a text only when the alphabet has printable characters
    talpha = [b for b in alpha if 33 <= b <= 126]
    if talpha and printable:
        a = rng.choice(printable)
        seq = []
        for k in range(rng.randint(1, 4)):
            b = regions.get(a + k, fill)
            if not 33 <= b <= 126:
                break
            seq.append(b)
        if any(b != fill for b in seq):
            textarg = ''.join(chr(b) for b in seq)
            text, err = run_snapinfo(['-t', textarg] + popt + [path])
            nres = len(out_lines(text))
            parsed = parse_find_lines(out_lines(text), allbanks, text=textarg)
            cases.append(_case('text', 'text:%s:%s:%s' % (machine, 'all' if allbanks else 'view', fmt), fill, bregs, page,
                               err=err or ('' if parsed is not None else 'unparsed-output'), seq=seq, m=1, n=1, lo=lo, allbanks=allbanks, shadow=0,
                               x=0, y=0, pic=[], out=parsed[0] if parsed else [], fmtbad=parsed[1] if parsed else 0, more=max(0, nres - MAXROWS),
                               info=dict(info, args=['-t', textarg] + popt, text=text[:400])))
    # ---- --find-tile --------------------------------------------------------------------------------------------------
    form = rng.randrange(3)
    dmax = max(dists)
    m_, n_ = (1, 1) if form == 0 else (dmax, dmax) if form == 1 else (1, min(dmax, 3) if dmax <= 3 else 2)
    if form == 2 and dmax > 3:
        m_, n_ = dmax - 1, dmax
    arg = '%d,%d' % (x, y) + ('' if form == 0 else '-%d' % m_ if form == 1 else '-%d-%d' % (m_, n_))
    text, err = run_snapinfo(['-T', arg] + popt + [path])
    ol = out_lines(text)
    pic = []
    if len(ol) >= 8 and all(re.fullmatch(r'\|[ *]{8}\|', s) for s in ol[:8]):
        pic = [int(s[1:9].replace(' ', '0').replace('*', '1'), 2) for s in ol[:8]]
        ol = ol[8:]
    seqtext = ','.join(str(b) for b in tile)
    nres = len(ol)
    parsed = parse_find_lines(ol, allbanks, seqtext=seqtext)
    cases.append(_case('tile', 'tile:%s:%s:%s' % (machine, 'all' if allbanks else 'view', fmt), fill, bregs, page,
                       err=err or ('' if parsed is not None else 'unparsed-output'), seq=[], m=m_, n=n_, lo=lo, allbanks=allbanks,
                       shadow=1 if scr == 7 else 0, x=x, y=y, pic=pic, out=parsed[0] if parsed else [], fmtbad=parsed[1] if parsed else 0, more=max(0, nres - MAXROWS),
                       info=dict(info, args=['-T', arg] + popt, text=text[:400])))
    os.remove(path)
    return cases


def chars_job(job):
    """--peek over a table holding every byte value 0..255 (every printable character, UDG and token)."""
    wd, n, sd, flavour = job
    rng = random.Random(sd * 9000011 + n)
    machine, page, o7ffd = _machine(rng, 0.25)
    fill = rng.randrange(256)
    base = rng.choice((16384, 23296, 30000, 32768 - 100, 49152 - 7, 65536 - 256, rng.randrange(16384, 65536 - 256)))
    table = list(range(256))
    if rng.random() < 0.5:
        rng.shuffle(table)
    bregs = split_regions([(base, table)], page)
    banks = build_banks(machine, fill, bregs)
    path, fmt = write_snapshot(os.path.join(wd, 'c%d' % n), rng, machine, banks, o7ffd)
    pp = [] if machine == '48K' else ['-P', str(page)]
    cases = []
    for kind, opt, last in (('peek', '-p', base + 255), ('word', '-w', min(65534, base + 255))):
        step = rng.choice((1, 1, 2, 3))
        spec = '%d-%d' % (base, last) + ('-%d' % step if step != (1 if kind == 'peek' else 2) or rng.random() < 0.5 else '')
        stepv = step if spec.count('-') == 2 else (1 if kind == 'peek' else 2)
        text, err = run_snapinfo([opt, spec] + pp + [path])
        cases.append(_case(kind, '%s:table:%s:%s' % (kind, machine, fmt), fill, bregs, page, err=err, specs=[[base, last, stepv]],
                           open=1 if kind == 'word' and spec.count('-') == 1 else 0,
                           out=[codes(s) for s in cap(out_lines(text), 256)],
                           info=dict(n=n, seed=sd, file=os.path.basename(path), args=[opt, spec] + pp, text=text[:300], step=stepv)))
    os.remove(path)
    return cases


def worker(job):
    kind = job[0]
    fn = {'program': program_job, 'memory': memory_job, 'chars': chars_job}[kind]
    return fn(job[1:])
