"""C08 driver: drive real 128K paging implementations along action sequences and record the
abstract state (DESIGN §4 C08): o7ffd, tracer copy, page ids visible to the CPU at the four 16K
regions, page ids visible through the Python Memory object, one data cell per physical page."""
import random

from ..lib import cbuild

CODE = 0x8100          # code scratch (bank 2, always at 0x8000)
VALCELL = 0x8200       # source byte for OUTI & co
ID_OFF = 0             # identity cell of every RAM bank
DATA_OFF = 1           # data cell of every page
PORTS = (0x7FFD, 0x3FFD, 0x0000, 0xFFFD, 0x7FFF, 0x00FE, 0xBFFD, 0x1234 & 0x7FFD, 0x5B5C, 0x7F7D)
IMPLS = ('py', 'c', 'pycm', 'ccm')
OUT_VARIANTS = ('out_c_a', 'out_c_d', 'outi', 'outd', 'otir', 'otdr', 'out_n_a')

_rom_diff = None


def rom_diff_offset(roms):
    global _rom_diff
    if _rom_diff is None:
        for x in range(16, 0x4000):
            if roms[0][x] != roms[1][x]:
                _rom_diff = x
                break
    return _rom_diff


class Machine:
    """One simulator implementation on a fresh 128K memory."""

    def __init__(self, impl, pre):
        import skoolkit
        from skoolkit import simutils
        from skoolkit.pagingtracer import Memory
        from skoolkit.simulator import Simulator
        from skoolkit.cmiosimulator import CMIOSimulator
        from skoolkit.trace import Tracer
        cls = {'py': Simulator, 'c': skoolkit.CSimulator, 'pycm': CMIOSimulator, 'ccm': skoolkit.CCMIOSimulator}[impl]
        banks = [[0] * 0x4000 for _ in range(8)]
        for p in range(8):
            banks[p][ID_OFF] = 0x10 + p
        mem = Memory(banks, pre)
        self.sim = simutils.from_memory(cls, mem)
        self.mem = self.sim.memory
        self.tracer = Tracer(self.sim, 0, pre, 0, [0] * 16, 0, False)
        self.sim.set_tracer(self.tracer)
        self.rom_orig = (self.mem.roms[0][DATA_OFF], self.mem.roms[1][DATA_OFF])
        self.xoff = rom_diff_offset(self.mem.roms)
        self.rom_ids = {self.mem.roms[0][self.xoff]: 8, self.mem.roms[1][self.xoff]: 9}
        self.regs = self.sim.registers

    def poke_code(self, *bs):
        b2 = self.mem.banks[2]
        for i, b in enumerate(bs):
            b2[CODE - 0x8000 + i] = b

    def run1(self):
        self.sim.run(CODE)

    def out(self, variant, port, v):
        r = self.regs
        hi, lo = port >> 8, port & 255
        if variant == 'out_n_a' and hi != v:
            variant = 'out_c_a'
        if variant == 'out_c_a':
            self.poke_code(0xED, 0x79); r[0] = v; r[2], r[3] = hi, lo
        elif variant == 'out_c_d':
            self.poke_code(0xED, 0x51); r[4] = v; r[2], r[3] = hi, lo
        elif variant == 'out_n_a':
            self.poke_code(0xD3, lo); r[0] = v
        else:
            op = {'outi': 0xA3, 'outd': 0xAB, 'otir': 0xB3, 'otdr': 0xBB}[variant]
            self.poke_code(0xED, op)
            self.mem.banks[2][VALCELL - 0x8000] = v
            r[2], r[3] = (hi + 1) % 256, lo
            r[6], r[7] = VALCELL >> 8, VALCELL & 255
        self.run1()

    def write(self, region, v):
        r = self.regs
        a = region * 0x4000 + DATA_OFF
        self.poke_code(0x32, a & 255, a >> 8)
        r[0] = v
        self.run1()

    def cpu_read(self, a):
        self.poke_code(0x3A, a & 255, a >> 8)
        self.run1()
        return self.regs[0]

    def observe(self):
        vis, pvis = [], []
        for region in range(4):
            a = region * 0x4000 + (self.xoff if region == 0 else ID_OFF)
            for lst, val in ((vis, self.cpu_read(a)), (pvis, self.mem[a])):
                if region == 0:
                    lst.append(self.rom_ids.get(val, -1))
                else:
                    lst.append(val - 0x10 if 0x10 <= val < 0x18 else -1)
        cells = [int(self.mem.banks[p][DATA_OFF]) for p in range(8)]
        cells += [0 if self.mem.roms[i][DATA_OFF] == self.rom_orig[i] else 255 for i in (0, 1)]
        return {'o7ffd': int(self.mem.o7ffd), 'tr': int(self.tracer.out7ffd), 'vis': vis, 'pvis': pvis,
                'cells': cells, 'exc': ''}


_cache = {}


def get_machine(impl, pre):
    """C simulators keep their own paging state, so they are rebuilt per trace (cheap); the Python
    simulators have none (it all lives in Memory / the tracer) and are reused after a reset."""
    if impl in ('c', 'ccm'):
        return Machine(impl, pre)
    m = _cache.get(impl)
    if m is None:
        m = _cache[impl] = Machine(impl, pre)
        return m
    for p in range(8):
        b = m.mem.banks[p]
        b[ID_OFF] = 0x10 + p
        b[DATA_OFF] = 0
    m.mem.out7ffd(pre)
    m.tracer.out7ffd = pre
    return m


def run_trace(impl, pre, acts, variants):
    """acts: list of ['out', port, v] / ['write', region, v]; variants: OUT instruction variant per act."""
    obs = []
    try:
        m = get_machine(impl, pre)
        for a, var in zip(acts, variants):
            if a[0] == 'out':
                m.out(var, a[1], a[2])
            else:
                m.write(a[1], a[2])
            obs.append(m.observe())
    except Exception as e:
        while len(obs) < len(acts):
            obs.append({'o7ffd': -1, 'tr': -1, 'vis': [], 'pvis': [], 'cells': [0] * 10,
                        'exc': '%s: %s' % (type(e).__name__, e)})
    return {'impl': impl, 'pre': pre, 'acts': acts, 'variants': variants, 'obs': obs}


def skmem_trace(pre, acts, copies=False):
    if copies:
        return skmem_copy_trace(pre, acts)
    return _skmem_trace(pre, acts)


def skmem_copy_trace(pre, acts):
    """The same actions on skoolutils.Memory, but the object is replaced by its copy() before every action (what #PUSHS does)
    and the banks carry NO identity bytes: all RAM banks have identical contents until a data cell is written, so a copy that
    looks its pages up by contents instead of identity pages in the wrong bank.  Visible pages are found by identity."""
    from skoolkit.skoolutils import Memory
    m = Memory()
    m.bank(0)
    rom_orig = (m.roms[0][DATA_OFF], m.roms[1][DATA_OFF])
    m.out7ffd(pre)
    obs = []
    for a in acts:
        exc = ''
        try:
            m = m.copy()
            if a[0] == 'memout':
                m.out7ffd(a[1])
            elif a[0] == 'membank':
                m.bank(a[1])
            elif a[1] > 0:
                m[a[1] * 0x4000 + DATA_OFF] = a[2]
        except Exception as e:
            exc = '%s: %s' % (type(e).__name__, e)

        def ident(pg, pages, base):
            hit = [base + i for i, b in enumerate(pages) if b is pg]
            return hit[0] if len(hit) == 1 else -1
        vis = [ident(m.memory[0], m.roms, 8), ident(m.memory[1], m.banks, 0), ident(m.memory[2], m.banks, 0), ident(m.memory[3], m.banks, 0)]
        cells = [int(m.banks[p][DATA_OFF]) for p in range(8)]
        cells += [0 if m.roms[i][DATA_OFF] == rom_orig[i] else 255 for i in (0, 1)]
        obs.append({'o7ffd': int(m.o7ffd), 'tr': int(m.o7ffd), 'vis': vis, 'pvis': vis, 'cells': cells, 'exc': exc})
    return {'impl': 'skmem', 'pre': pre, 'acts': acts, 'variants': ['copy'] * len(acts), 'obs': obs, 'copies': 1}


def _skmem_trace(pre, acts):
    """skoolutils.Memory: acts ['memout', v, 0] / ['membank', p, 0] / ['write', region, v]."""
    from skoolkit.skoolutils import Memory
    m = Memory()
    m.bank(0)            # switch to 128K mode (allocates all banks)
    for p in range(8):
        m.banks[p][ID_OFF] = 0x10 + p
    xoff = rom_diff_offset(m.roms)
    rom_ids = {m.roms[0][xoff]: 8, m.roms[1][xoff]: 9}
    rom_orig = (m.roms[0][DATA_OFF], m.roms[1][DATA_OFF])
    m.out7ffd(pre)
    obs = []
    for a in acts:
        exc = ''
        try:
            if a[0] == 'memout':
                m.out7ffd(a[1])
            elif a[0] == 'membank':
                m.bank(a[1])
            else:
                if a[1] > 0:          # the parser never stores into ROM through this object
                    m[a[1] * 0x4000 + DATA_OFF] = a[2]
        except Exception as e:
            exc = '%s: %s' % (type(e).__name__, e)
        vis = []
        for region in range(4):
            val = m[region * 0x4000 + (xoff if region == 0 else ID_OFF)]
            vis.append(rom_ids.get(val, -1) if region == 0 else (val - 0x10 if 0x10 <= val < 0x18 else -1))
        cells = [int(m.banks[p][DATA_OFF]) for p in range(8)]
        cells += [0 if m.roms[i][DATA_OFF] == rom_orig[i] else 255 for i in (0, 1)]
        obs.append({'o7ffd': int(m.o7ffd), 'tr': int(m.o7ffd), 'vis': vis, 'pvis': vis, 'cells': cells, 'exc': exc})
    return {'impl': 'skmem', 'pre': pre, 'acts': acts, 'variants': [''] * len(acts), 'obs': obs}


VALS64 = tuple(range(64)) + (64, 128, 255, 0xE7, 0x9F)


def worker(args):
    """(seed, pres, vals_per_edge (0 = all 256), histories, hist_len) -> traces"""
    seed, pres, nvals, nhist, hlen = args
    cbuild.preload()
    rnd = random.Random(seed)
    out = []
    k = 0
    for pre in pres:
        for port in PORTS:
            vals = range(256) if nvals == 0 else rnd.sample(VALS64, nvals)
            for v in vals:
                for impl in IMPLS:
                    var = OUT_VARIANTS[k % len(OUT_VARIANTS)]
                    k += 1
                    acts = [['out', port, v], ['write', 3, 1 + (v % 200)], ['write', 0, 77]]
                    out.append(run_trace(impl, pre, acts, [var, '', '']))
    for _ in range(nhist):
        pre = rnd.choice(VALS64)
        acts, variants = [], []
        for _ in range(hlen):
            if rnd.random() < 0.6:
                port = rnd.choice(PORTS) if rnd.random() < 0.7 else rnd.randrange(65536)
                acts.append(['out', port, rnd.choice(VALS64) if rnd.random() < 0.8 else rnd.randrange(256)])
                variants.append(rnd.choice(OUT_VARIANTS))
            else:
                acts.append(['write', rnd.randrange(4), rnd.randrange(1, 256)])
                variants.append('')
        for impl in IMPLS:
            out.append(run_trace(impl, pre, acts, variants))
        macts = []
        for a in acts:
            if a[0] == 'out':
                macts.append(['memout', a[2], 0] if rnd.random() < 0.6 else ['membank', a[2] % 8, 0])
            else:
                macts.append(a)
        out.append(skmem_trace(pre, macts))
        out.append(skmem_copy_trace(pre, macts))
    return out
