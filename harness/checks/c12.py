"""C12 - a program converted to tape by bin2tap loads back to the same memory via tap2sna (DESIGN §4 C12)."""
import multiprocessing as mp
import os

from ..lib import cbuild, tlc
from ..lib.common import workdir, rmworkdir, seed, log, MachineryError
from ..lib.report import Report
from ..drivers import loaddrv, replaylib

PID = 'C12'
KEYS = ('err', 'loaderr', 'org', 'len', 'start', 'stack', 'clear', 'm128', 'want7ffd', 'bin', 'tapedata', 'lcode', 'laddr', 'pc', 'sp',
        'o7ffd', 'snapmem', 'bigdiff', 'bankok')


def run(tier):
    rep = Report(PID, tier)
    wd = workdir('c12')
    sd = seed()
    r = tlc.model_check('load', 'Loader', 'Loader_mc.cfg', timeout=900, coverage=False)
    rep.add_tlc(r, 'Loader_mc')
    rep.model_violation(r, 'Loader_mc')
    cbuild.build()
    per = 64 if tier == 'quick' else 400
    with mp.get_context('fork').Pool(16) as pool:
        parts = pool.map(loaddrv.worker, [(sd * 83 + k, per, wd, k % 2 == 0) for k in range(16)])
    cases = [c for p in parts for c in p]
    log('C12: %d bin2tap -> tap2sna round trips' % len(cases))
    rs, fails = tlc.judge('load', 'LoadCases', 'LoadCases.cfg', [{k: c[k] for k in KEYS} for c in cases],
                          casefile=os.path.join(wd, 'load.json'))
    rep.add_tlc(rs, 'LoadCases', traces=len(cases))
    for c in cases:
        rep.count((c['key'], c['rel'] if c['clear'] < 0 else 'c', c['len'], tuple(c['opts'])))
    rep.evaluations = len(cases) * 2
    rep.sample({k: cases[0][k] for k in ('key', 'org', 'len', 'start', 'stack', 'clear', 'opts', 'pc', 'sp')})
    for i, clause in fails:
        c = cases[i]
        rel = c['rel']
        key = 'load:%s:%s' % (c['key'], clause)
        if c['clear'] < 0 and 0 < rel < 4 and clause in ('tape-data', 'pc', 'sp', 'memory', 'load-failed'):
            key = 'load:stack-inside-first-3-bytes:%s' % clause
        rep.violation(key, 'bin2tap %s (org=%d len=%d start=%d stack=%d clear=%d) -> tap2sna: %s; pc=%s sp=%s %s'
                      % (' '.join(c['opts']), c['org'], c['len'], c['start'], c['stack'], c['clear'], clause, c['pc'], c['sp'],
                         c['err'] or c['loaderr']), {k: c[k] for k in KEYS + ('opts', 'fmt', 'key', 'gen')})
    rep.rule = ('binary size x ORG x START x STACK relation to the data (below / overlapping each pre-filled stack byte / inside / above) '
                'x CLEAR x screen x {tap,pzx} x {48K, 128K with bank subsets, --7ffd, --loader}; distinct_nontrivial = distinct '
                '(configuration class, stack-org, length, options)')
    rmworkdir('c12')
    return rep.finish()


def replay(path):
    """./check C12 --replay replays/C12-n.json : make the recorded program again, bin2tap and tap2sna of the current tree on it with
    the recorded options, judged by LoadCases."""
    d, rp = replaylib.load(path, PID)
    replaylib.need(rp, path, 'org', 'len', 'start', 'stack', 'clear', 'opts', 'fmt', 'key', 'm128')
    if 'gen' in rp:
        g, rnd = loaddrv.regen(rp['gen'])
        got = (g['org'], g['size'], g['start'], g['stack'], g['clear'], g['opts'], g['fmt'])
        want = (rp['org'], rp['len'], rp['start'], rp['stack'], rp['clear'], rp['opts'], rp['fmt'])
        if got != want:
            raise MachineryError('replay file %s was written by a different version of the C12 generator: it now makes %s, recorded %s' % (path, got, want))
    else:
        replaylib.need(rp, path, 'bin', 'want7ffd')
        g, rnd = loaddrv.g_from_record(rp)
        if g is None:
            raise MachineryError('unusable replay file %s: the program is larger than 300 bytes and its bytes were not recorded' % path)
    wd = workdir('replay-c12')
    cbuild.preload()
    # same scratch file number as in the recorded run: bin2tap names the program on the tape after its input file
    c = loaddrv.run_case(wd, rp.get('gen', {}).get('k', 0), g, rnd)
    c.pop('ramfull', None)
    if c['key'] != rp['key']:
        raise MachineryError('replay of %s: rebuilt configuration %s is not the recorded %s' % (path, c['key'], rp['key']))
    rs, fails = tlc.judge('load', 'LoadCases', 'LoadCases.cfg', [{k: c[k] for k in KEYS}], casefile=os.path.join(wd, 'load.json'))
    found = ['load:%s:%s: bin2tap %s (org=%d len=%d start=%d stack=%d clear=%d) -> tap2sna: pc=%s sp=%s %s'
             % (c['key'], clause, ' '.join(c['opts']), c['org'], c['len'], c['start'], c['stack'], c['clear'], c['pc'], c['sp'], c['err'] or c['loaderr'])
             for _, clause in fails]
    rmworkdir('replay-c12')
    return replaylib.verdict(PID, path, found)
