"""C17 - numeric and control-flow skool macros expand with their documented semantics, identically in ASM and
HTML mode and wherever the text appears (DESIGN §4 C17)."""
import multiprocessing as mp
import os
import re
import threading
import time

from ..lib import cbuild, tlc
from ..lib.common import workdir, rmworkdir, seed, log, MachineryError, WORK
from ..lib.report import Report
from ..drivers import macrodrv, replaylib

PID = 'C17'

TLC_FIELDS = ('term', 'base', 'case', 'bo', 'bb', 'locs', 'exc')

REQUIRED_TAGS = ['Eval', 'N', 'If', 'Map', 'For', 'Foreach', 'While', 'Let', 'LetS', 'Format', 'Def', 'Call', 'Peek', 'Pokes',
                 'Pushs', 'Pops', 'Chr', 'Str', 'Space', 'Pc', 'Pre', 'Sub', 'Text', 'Seq',
                 'e:m', 'e:pre', 'e:var', 'e:sub'] + ['op:' + o for o in macrodrv.BINOPS]
REQUIRED_SYNTAX = ['ints:bare', 'ints:paren', 'ints:keyword', 'ints:blank', 'ints:spaces', 'lit:hex', 'field', 'nested-in-int',
                   'nested-let-in-int', 'nested-brace-in-int', 'pre-expand', 'str:(1', 'str:(n', 'str:[1', 'str:[n', 'str:{1', 'str:{n', 'str:alt1',
                   'str:alt', 'str:alt-same', 'str:alt-space', 'expr:spaces', 'expr:precedence', 'def:fields',
                   'while:padded-body', 'let:string', 'def:string-params', 'def:string-default', 'call:string-default']
REQUIRED_NOTES = ['If:True:1', 'If:False:1', 'If:True:2', 'If:False:2', 'Map:hit', 'Map:default', 'For:n=0', 'For:n=1',
                  'For:n=2', 'For:n=3', 'Foreach:n=1', 'Foreach:n=2', 'Foreach:n=3', 'While:n=0', 'While:n=1', 'While:n=2',
                  'N:hex', 'N:dec', 'Eval:base2', 'Eval:base10', 'Eval:base16', 'Pre:If', 'Pre:Map'] + \
                 ['For:flags=%d' % f for f in range(8)] + ['Str:bit1', 'Str:bit2', 'Str:bit4', 'Str:bit8', 'Str:len', 'Str:scan']


def model_runs(tier, wd, out):
    """pattern A: the macro environment as a state machine (#PUSHS/#POPS/#POKES interleavings to stack depth 3,
    #LET visibility, #FOR element and separator counts).  quick: 2 addresses x depth 3 and 3 addresses x depth 2;
    thorough adds 3 addresses x depth 3.  The small configuration is dumped to see that every action fires."""
    try:
        cfgs = ['Macro_mc.cfg', 'Macro_mc_wide.cfg'] + (['Macro_mc_thorough.cfg'] if tier == 'thorough' else [])
        out['runs'] = []
        for cfg in cfgs:
            out['runs'].append((cfg[:-4], tlc.model_check('macro', 'Macro', cfg, coverage=False, workers=4 if tier == 'quick' else 16)))
        dump = os.path.join(wd, 'mcsmall')
        r2 = tlc.model_check('macro', 'Macro', 'Macro_mc_small.cfg', coverage=False, workers=2, extra=['-dump', dump])
        out['runs'].append(('Macro_mc_small', r2))
        with open(dump + '.dump') as f:
            out['acts'] = set(re.findall(r'act = "(\w+)"', f.read()))
    except BaseException as e:            # re-raised in the main thread
        out['error'] = e


def run(tier):
    rep = Report(PID, tier)
    wd = workdir('c17')
    sd = seed()
    cbuild.repo_only()
    mc = {}
    th = threading.Thread(target=model_runs, args=(tier, wd, mc))
    th.start()

    nfiles, per = (54, 13) if tier == 'quick' else (1440, 14)
    combos = [(b, c) for b in (0, 10, 16) for c in (0, 1, 2)]
    args = []
    for fi in range(nfiles):
        b, c = combos[fi % 9]
        depth = 4 if fi % 3 else 3
        args.append((sd, fi, per, b, c, depth, wd))
    t0 = time.time()
    with mp.get_context('fork').Pool(16, maxtasksperchild=4) as pool:
        parts = pool.map(macrodrv.worker, args, chunksize=1)
    cases = [c for p in parts for c in p]
    cases += macrodrv.probes(wd)
    log('C17: %d macro texts expanded at %d places by both tools in %.1fs' % (len(cases), len(macrodrv.PLACES), time.time() - t0))

    th.join()
    log('C17: model checking finished after %.1fs' % (time.time() - t0))
    if 'error' in mc:
        raise mc['error']
    for name, r in mc['runs']:
        rep.add_tlc(r, name)
        rep.model_violation(r, name)
    missing = {'Pokes', 'Pushs', 'Pops', 'Let', 'LetNested', 'For'} - mc['acts']
    if missing:
        raise MachineryError('Macro_mc: actions never taken: %s' % sorted(missing))
    rep.extra['mc_actions_taken'] = sorted(mc['acts'])

    for b in range(0, len(cases), 6000):
        part = cases[b:b + 6000]
        slim = [{k: c[k] for k in TLC_FIELDS} for c in part]
        r, fails = tlc.judge('macro', 'MacroCases', 'MacroCases.cfg', slim, casefile=os.path.join(wd, 'cases.json'))
        rep.add_tlc(r, 'MacroCases', traces=len(part))
        for i, clause in fails:
            c = part[i]
            kind, _, place = clause.partition(':')
            if kind == 'undefined':
                raise MachineryError('generated text outside the specified domain: %s %s' % (c['key'], c['text']))
            where = macrodrv.PLACES[int(place) - 1][0] if place else ''
            if c['key'].startswith('probe:'):
                key = 'macro:%s:%s' % (c['key'], kind)
            else:
                key = 'macro:%s:%s' % (kind, '+'.join(t for t in c['tags'] if t[0].isupper() and t not in ('Text', 'Seq')))
            opts = macrodrv.BASE_OPTS[c['base']] + macrodrv.CASE_OPTS[c['case']]
            what = ('%s %s [%s] text %r: clause %s%s' % (c['key'], ' '.join(opts), kind, c['text'], clause,
                                                          (' (' + where + ')') if where else ''))
            if c['exc']:
                what += ' error: ' + c['exc']
            else:
                k = int(place) - 1
                what += ' asm=%r html=%r' % (''.join(map(chr, c['locs'][k]['asm'])), ''.join(map(chr, c['locs'][k]['html'])))
            rep.violation(key, what, {k: c[k] for k in ('key', 'text', 'base', 'case', 'bb', 'term', 'locs', 'exc', 'shadow')})

    seen_tags, seen_syntax, seen_notes = {}, {}, {}
    for c in cases:
        if c['key'].startswith('probe:'):
            continue
        for t in c['tags']:
            seen_tags[t] = seen_tags.get(t, 0) + 1
        for t in c['used']:
            seen_syntax[t] = seen_syntax.get(t, 0) + 1
        for t in c['notes']:
            seen_notes[t] = seen_notes.get(t, 0) + 1
        rep.count((tuple(t for t in c['tags'] if t[0].isupper()), c['base'], c['case']))
    rep.evaluations = len(cases) * len(macrodrv.PLACES) * 2
    lack = [t for t in REQUIRED_TAGS if seen_tags.get(t, 0) < 3] + [t for t in REQUIRED_SYNTAX if seen_syntax.get(t, 0) < 3] \
        + [t for t in REQUIRED_NOTES if seen_notes.get(t, 0) < 2]
    if lack:
        raise MachineryError('vacuous C17 run: classes (almost) never generated: %s' % lack)
    rep.extra['macro_counts'] = {k: v for k, v in sorted(seen_tags.items()) if k[0].isupper()}
    rep.extra['syntax_counts'] = dict(sorted(seen_syntax.items()))
    rep.extra['semantic_class_counts'] = dict(sorted(seen_notes.items()))
    for c in cases[:3]:
        rep.sample({'text': c['text'], 'options': macrodrv.BASE_OPTS[c['base']] + macrodrv.CASE_OPTS[c['case']],
                    'expansion_at_title': ''.join(map(chr, c['locs'][0]['asm']))})
    rep.rule = ('random term trees (macro nesting <= 4, operands within +-2^20, ** exponents <= 5) preceded by #PUSHS/#DEF/#LET/'
                '#POKES preambles, rendered in randomly chosen documented concrete syntaxes, planted at 7 places of a skool file (incl. a multi-instruction comment and the end comment after it), '
                'x 9 base/case option sets; each text is expanded by skool2asm.main and skool2html.main; TLC evaluates '
                'Macro!Expand on the tree and compares; distinct_nontrivial = distinct (set of macros used, base, case)')
    rep.assumptions = [
        'html.unescape is trusted to undo the HTML escaping of skool2html output; &#160; and space are identified',
        'every planted text is self-contained (starts with #PUSHS, ends with #POPS, defines the variables and macros it uses), '
        'because the two tools expand the places of a skool file in different orders and numbers of times',
        'inputs stay inside the documented domain: no division by zero, no negative shift/exponent, non-negative values for '
        'padded/hex output, && and || in value position only on 0/1 operands, distinct #MAP keys, #N/#EVAL/#FORMAT fields '
        'integer only',
        'the generator-side shadow evaluator only filters inputs; verdicts come from TLC evaluating Macro.tla',
    ]
    rmworkdir('c17')
    return rep.finish()


def replay(path):
    """./check C17 --replay replays/C17-n.json : plant the recorded macro text at the recorded entry of a skool file again (same data
    bytes, same base / case options), expand it with skool2asm and skool2html of the current tree, and let TLC evaluate
    Macro!Expand on the recorded term tree against the fresh expansions (MacroCases)."""
    d, rp = replaylib.load(path, PID)
    wd = workdir('replay-c17')
    cbuild.repo_only()
    if 'tlc_output_tail' in rp:
        mc = {}
        model_runs('quick', wd, mc)
        if 'error' in mc:
            raise mc['error']
        rmworkdir('replay-c17')
        return replaylib.verdict(PID, path, ['model:%s:%s' % (name, inv) for name, r in mc['runs'] for inv in r.violated])
    replaylib.need(rp, path, 'key', 'text', 'base', 'case', 'bb', 'term', 'locs')
    if rp['base'] not in macrodrv.BASE_OPTS or rp['case'] not in macrodrv.CASE_OPTS or len(rp['locs']) != len(macrodrv.PLACES):
        raise MachineryError('unusable replay file %s: unknown base / case option set or place list' % path)
    # the entry's address is part of the input (#PC, and the addresses the places are rendered at): same slot of the file again,
    # the slots before it hold plain text
    ea = rp['locs'][0]['pc']
    i = (ea - macrodrv.entry_address(0)) // 4
    if not 0 <= i < 64 or macrodrv.entry_address(i) != ea:
        raise MachineryError('unusable replay file %s: entry address %s' % (path, ea))
    asm, htm, exc = macrodrv.run_tools(['x'] * i + [rp['text']], rp['bb'], rp['base'], rp['case'], wd, 'replay')
    locs = []
    for k, (pname, off) in enumerate(macrodrv.PLACES):
        a, h = asm[i][k], htm[i][k]
        if (a is None or h is None) and not exc:
            exc = 'expansion not found at %s (asm %s, html %s)' % (pname, a is not None, h is not None)
        locs.append({'pc': ea + off, 'asm': macrodrv.codes(a or ''), 'html': macrodrv.codes(h or '')})
    c = {'term': rp['term'], 'base': rp['base'], 'case': rp['case'], 'bo': macrodrv.BO, 'bb': rp['bb'], 'locs': locs, 'exc': exc[:600]}
    r, fails = tlc.judge('macro', 'MacroCases', 'MacroCases.cfg', [c], casefile=os.path.join(wd, 'cases.json'))
    found = []
    for _, clause in fails:
        kind, _, place = clause.partition(':')
        if kind == 'undefined':
            raise MachineryError('recorded text outside the specified domain: %s %s' % (rp['key'], rp['text']))
        what = 'macro:%s: %s %s text %r: clause %s' % (kind, rp['key'], ' '.join(macrodrv.BASE_OPTS[rp['base']] + macrodrv.CASE_OPTS[rp['case']]), rp['text'], clause)
        if exc:
            what += ' error: ' + exc
        elif place:
            k = int(place) - 1
            what += ' (%s) asm=%r html=%r' % (macrodrv.PLACES[k][0], ''.join(map(chr, locs[k]['asm'])), ''.join(map(chr, locs[k]['html'])))
        found.append(what)
    rmworkdir('replay-c17')
    return replaylib.verdict(PID, path, found)
