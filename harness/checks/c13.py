"""C13 - simulated LOAD results do not depend on speed-up options or simulator choice (DESIGN §4 C13).

(A) TLC decides the refinement obligations for every entry of skoolkit.loadsample.ACCELERATORS and for the DEC A loops
    (spec/load/AccOblig.tla over TapePlayer.tla + Z80.tla).
(B) binding: small scenarios run on the real LoadTracer/Simulator and CSimulator.load, judged against the plain spec run
    (spec/load/PlayerCases.tla).
(C) end-to-end: bin2tap tapes and custom-loader TZX tapes through real tap2sna.main under a configuration matrix; TLC
    compares the projected snapshots (spec/load/SnapGroups.tla).
"""
import json
import multiprocessing as mp
import os
import random

from ..lib import cbuild, tlc
from ..lib.common import workdir, rmworkdir, seed, log, MachineryError
from ..lib.report import Report
from ..drivers import accdrv, replaylib

PID = 'C13'
CV_FIXED = (0, 1, 2, 15, 16, 127, 128, 250, 251, 252, 253, 254, 255)
AV_FIXED = (0, 1, 2, 3, 16, 0x16, 128, 255)


def obligations(rep, accs, tier, sd, wd):
    rnd = random.Random(sd * 7919 + 13)
    q = tier == 'quick'
    cvs = sorted(set(CV_FIXED) | set(rnd.sample(range(3, 250), 3))) if q else list(range(256))
    avs = sorted(set(AV_FIXED) | set(rnd.sample(range(4, 255), 4))) if q else list(range(256))
    inp = dict(accs=accs, cvs=cvs, avs=avs, thorough=0 if q else 1, ks=[1, 3] if q else [1, 2, 3, 5],
               xs=[0, -1] if q else [0, 1, -1], lits=[3] if q else [1, 3], limroom=6)
    path = os.path.join(wd, 'accs.json')
    with open(path, 'w') as f:
        json.dump(inp, f, separators=(',', ':'))
    r = tlc.run(os.path.join(tlc.SPEC, 'load'), 'AccOblig', 'AccOblig.cfg', env={'ACCS': path}, tag='AccOblig', timeout=3000)
    tlc.check_machinery(r, 'AccOblig')
    total = len(accs) * len(cvs) + 4 * len(avs)
    if r.distinct != 2 * total:
        raise MachineryError('AccOblig: expected %d states, TLC found %d\n%s' % (2 * total, r.distinct, r.out[-2000:]))
    rep.add_tlc(r, 'AccOblig')
    rep.extra['obligation_space'] = dict(accelerators=len(accs), counter_values=len(cvs), a_values=len(avs), ks=inp['ks'], xs=inp['xs'],
                                    enumerated_by_tlc=total)
    for code, clause in sorted(set(r.fails)):
        ai, cv = code // 1000, code % 1000
        if ai > 900:
            name = ('dec-a-jr', 'dec-a-jr', 'dec-a-jp', 'dec-a-jp')[ai - 901]
            what = 'DEC A loop closed form (%s, A=%d, carry=%d) differs from the plain Z80 run: %s' % (name, cv, ai % 2, clause)
            replay = {'kind': name, 'a': cv}
        else:
            a = accs[ai - 1]
            name = a['name']
            what = ('accelerator %s (loop_time=%d loop_r_inc=%d counter=%d inc=%d ear_mask=%d polarity=%d), counter value %d: '
                    'fast-forward and plain execution of its own code bytes disagree: %s'
                    % (name, a['lt'], a['lr'], a['counter'], a['inc'], a['mask'], a['pol'], cv, clause))
            replay = {k: a[k] for k in ('name', 'code', 'c0', 'counter', 'inc', 'lt', 'lr', 'ear', 'mask', 'pol')}
            replay['counter_value'] = cv
        rep.violation('oblig:%s:%s' % (name, clause), what, replay)
    return total


def binding(rep, tier, sd, wd):
    q = tier == 'quick'
    rounds, ndeca, nplayer = (2, 4, 5) if q else (12, 40, 60)
    with mp.get_context('fork').Pool(16) as pool:
        parts = pool.map(accdrv.scenario_worker, [(sd * 131 + k, rounds, ndeca, nplayer, k, 16) for k in range(16)])
    cases = [c for p in parts for c in p]
    kinds = {}
    for c in cases:
        kinds[c['key'].split('/')[0]] = kinds.get(c['key'].split('/')[0], 0) + 1
    loops = [c for c in cases if c['key'].startswith('loop/') and c['key'].split('/')[2] in ('near', 'limit', 'level', 'late')]
    hit = sum(1 for c in loops if any(o['hits'] for o in c['obs'] if o['impl'].endswith('/one')))
    dhit = sum(1 for c in cases if c['key'].startswith('deca/j') and any(o['hits'] for o in c['obs']))
    if min(kinds.get(k, 0) for k in ('loop', 'deca', 'player')) == 0 or hit * 10 < len(loops) * 9 or dhit == 0:
        raise MachineryError('binding scenarios are vacuous: %s, %d of %d loops recognised, %d dec-a' % (kinds, hit, len(loops), dhit))
    log('C13: %d scenarios x %d observations on LoadTracer/Simulator and CSimulator.load (%d/%d sampling loops recognised)'
        % (len(cases), len(cases[0]['obs']), hit, len(loops)))
    keys = ('S', 'r', 'ov', 'tp', 'stops', 'fuel', 'obs')
    rs, fails = tlc.judge('load', 'PlayerCases', 'PlayerCases.cfg', [{k: c[k] for k in keys} for c in cases],
                          casefile=os.path.join(wd, 'player.json'))
    rep.add_tlc(rs, 'PlayerCases', traces=len(cases))
    for c in cases:
        rep.count(('bind', c['key']), n=len(c['obs']))
    rep.sample({'scenario': cases[0]['key'], 'registers': cases[0]['r'], 'player': cases[0]['tp'], 'edges': cases[0]['S']['edges'][:8],
                'observed': [o['impl'] for o in cases[0]['obs']]})
    for i, clause in fails:
        c = cases[i]
        if clause == 'spec-no-stop':
            raise MachineryError('scenario %s: the specification run does not reach the stop address' % c['key'])
        key = 'bind:%s:%s' % (c['key'], clause)
        if c['key'].startswith('probe/short-pulse'):
            key = 'e2e:probe/short-pulse:bind:%s' % clause
        rep.violation(key,
                      'scenario %s: real run (%s) differs from the plain specification run in %s'
                      % (c['key'], clause.rpartition(':')[0], clause.rpartition(':')[2]),
                      {k: c[k] for k in ('key',) + keys + ('sc',)})
    rep.extra['binding'] = dict(scenarios=len(cases), kinds=kinds, loops_recognised=hit)
    return len(cases)


def _e2e_job(job):
    if job[0] == 'probe':
        return [getattr(accdrv, job[1])(job[2])]
    if job[0] == 'irq':
        return accdrv.irq_worker(job[1])
    if job[0] == 'slow':
        return accdrv.slow_worker(job[1])
    return accdrv.custom_worker(job[1]) if job[0] == 'cu' else accdrv.c12_worker(job[1])


def end_to_end(rep, accs, tier, sd, wd):
    q = tier == 'quick'
    usable = [a['name'] for a in accs if accdrv.ear_usable(a)]
    n = len(usable)
    rounds = 1 if q else 2
    idxs = list(range(n * rounds))
    fullset = set() if q else {0, n // 2, n + 5}
    jobs = [('probe', name, os.path.join(wd, name)) for name in ('probe_dec_counter_zero', 'probe_short_pulse', 'probe_zero_gap_pause')]
    for j in jobs:
        os.makedirs(j[2], exist_ok=True)
    # full-product tapes first so that they do not end up at the tail of the schedule
    for i in sorted(fullset):
        jobs.append(('cu', (sd * 977 + 500 + i, [i], tier, wd, fullset)))
    rest = [i for i in idxs if i not in fullset]
    for k in range(16 if q else 32):
        part = [i for i in rest if i % (16 if q else 32) == k]
        if part:
            jobs.append(('cu', (sd * 977 + k, part, tier, wd, fullset)))
    # programs that wait a long time with interrupts enabled between two ROM loads (fast loads that move the clock backwards)
    nslow = 16 if q else 48
    for k in range(nslow):
        jobs.append(('slow', (sd * 419 + k, [sd * nslow + k], tier, wd)))
    nb = 1 if q else 3
    for k in range(16):
        jobs.append(('b', (sd * 389 + k, nb, tier, wd)))
    # loaders that sample the tape with interrupts enabled, block starts placed around the frame boundary
    nirq = 16 if q else 64
    for k in range(nirq):
        jobs.append(('irq', (sd * 613 + k, [sd * nirq + k], tier, wd)))
    with mp.get_context('fork').Pool(16) as pool:
        parts = pool.map(_e2e_job, jobs, chunksize=1)
    cases = [c for p in parts for c in p if not c['key'].startswith('probe/')]
    probes = [c for p in parts for c in p if c['key'].startswith('probe/')]
    live = []
    notload = []
    for c in cases:
        runs = c.get('runs') or []
        # "a tape that loads": some configuration (not necessarily the default one, which has fast-load=1) loads exactly the
        # bytes on the tape and reaches --start; every run is then judged against the tape's bytes
        loads_somewhere = any(u['err'] == '' and u['pc'] == c['start'] and u['data'] == c['expect'] for u in runs)
        if c.get('skipped') or not runs or runs[0]['cfg'] != 'default' or not loads_somewhere:
            notload.append(c['key'])
        else:
            live.append(c)
    ncustom = sum(1 for c in live if c['key'].startswith('custom/'))
    shapes = set(c['gen']['acc'] for c in live if c['key'].startswith('custom/'))
    nb12 = sum(1 for c in live if c['key'].startswith('c12/'))
    nstack = sum(1 for c in live if c['key'].startswith('custom/') and 'romstack' in c['gen']['kinds'])
    if nstack < 6:
        raise MachineryError('only %d tapes load a ROM block over the return stack' % nstack)
    if ncustom < 0.7 * n * rounds or len(shapes) < 0.7 * n or nb12 < 10:
        raise MachineryError('too few tapes load: custom %d (shapes %d of %d), bin2tap %d; not loading: %s'
                             % (ncustom, len(shapes), n, nb12, notload[:8]))
    irq = [c for c in live if c['key'].startswith('irq/')]
    irq_early = sum(c['irq']['early'] for c in irq)
    irq_window = sum(c['irq']['window'] for c in irq)
    irq_ints = sum(1 for c in irq for v in c['irq']['ints'] if v > 0)
    irq_py = sum(1 for c in irq for u in c['runs'] if 'python=1' in u['cfg'])
    irq_ds = set(p if p < 64 else p - c['gen']['frame'] for c in irq for ps in c['irq']['pos'].values() for p in ps)
    if len(irq) < 0.7 * nirq or irq_early < 2 * nirq or irq_window <= irq_early or irq_ints < 10 * nirq or irq_py < 3 * nirq \
            or not set(accdrv.IRQ_FIXED) <= irq_ds:
        raise MachineryError('interrupt-enabled loaders are vacuous: %d of %d tapes load, %d block starts in the first 21 T-states of a frame, '
                             '%d in the first 32, %d runs that accepted interrupts while sampling, %d Python runs, frame positions %s'
                             % (len(irq), nirq, irq_early, irq_window, irq_ints, irq_py, sorted(irq_ds)))
    slow = [c for c in live if c['key'].startswith('slow/')]
    slow_back = sum(c['slow']['clock_back_over_a_frame'] for c in slow)
    slow_fl = sum(c['slow']['fast_loads'] for c in slow)
    slow_py = sum(1 for c in slow for u in c['runs'] if 'python=1' in u['cfg'])
    slow_real = sum(1 for c in slow for u in c['runs'] if 'fast-load=0' in u['cfg'])
    if len(slow) < 0.7 * nslow or slow_back < 2 * nslow or slow_py < nslow or slow_real < nslow // 4:
        raise MachineryError('slow-consumer programs are vacuous: %d of %d tapes load, %d fast loads, %d of them moved the clock back by a frame '
                             'or more, %d Python runs, %d fast-load=0 runs' % (len(slow), nslow, slow_fl, slow_back, slow_py, slow_real))
    # pairwise cover of the speed-up options over the suite (vacuity)
    seen = set()
    for c in live:
        for u in c['runs']:
            o = dict(x.split('=') for x in u['cfg'].split(';')) if u['cfg'] != 'default' else {}
            acc = o.get('accelerator', 'auto')
            acc = acc if acc in ('auto', 'none') else 'name'
            vals = {'acc': acc, 'deca': o.get('accelerate-dec-a', '3'), 'pause': o.get('pause', '1'), 'py': o.get('python', '0'),
                    'fl': o.get('fast-load', '1'), 'cmio': o.get('cmio', '0')}
            ks = sorted(vals)
            for i, a in enumerate(ks):
                for b in ks[i + 1:]:
                    seen.add((a, vals[a], b, vals[b]))
    need = set()
    dom = {'acc': ('auto', 'none', 'name'), 'deca': '0123', 'pause': '01', 'py': '01', 'fl': '01'}
    ks = sorted(dom)
    for i, a in enumerate(ks):
        for b in ks[i + 1:]:
            for x in dom[a]:
                for y in dom[b]:
                    need.add((a, x, b, y))
    missing = need - seen
    if missing:
        raise MachineryError('configuration pairs never exercised: %s' % sorted(missing)[:6])
    log('C13: %d tapes (%d custom-loader over %d loop shapes, %d bin2tap, %d with interrupts enabled: %d block starts inside the INT window, '
        '%d slow consumers: %d fast loads moved the clock back), '
        '%d tap2sna runs; %d tapes not loading in any configuration'
        % (len(live), ncustom, len(shapes), nb12, len(irq), irq_window, len(slow), slow_back, sum(len(c['runs']) for c in live), len(notload)))
    if not all(u['t'] >= 0 for c in live for u in c['runs'] if not u['err']):
        raise MachineryError('the clock could not be observed (tap2sna.get_state hook)')
    live += probes
    rs, fails = tlc.judge('load', 'SnapGroups', 'SnapGroups.cfg', [{k: c[k] for k in ('start', 'expect', 'runs')} for c in live],
                          casefile=os.path.join(wd, 'snap.json'))
    rep.add_tlc(rs, 'SnapGroups', traces=len(live))
    for c in live:
        for u in c['runs']:
            rep.count(('e2e', c['key'], u['cfg']))
        rep.drift += len(c.get('dropped') or [])
    rep.extra['interrupt_enabled_loaders'] = dict(tapes=len(irq), block_starts_in_first_21_tstates_of_a_frame_with_iff1=irq_early,
                                                  block_starts_in_int_window=irq_window, runs_with_interrupts_accepted_while_sampling=irq_ints,
                                                  python_runs=irq_py, frame_positions=sorted(irq_ds))
    rep.extra['slow_consumers'] = dict(tapes=len(slow), fast_loads_not_at_end_of_tape=slow_fl, fast_loads_that_moved_the_clock_back_a_frame_or_more=slow_back,
                                       python_runs=slow_py, fast_load_0_runs=slow_real,
                                       frames_back=sorted(set(x for c in slow for x in c['slow']['clock_back_frames'])))
    c0 = live[0]
    rep.sample({'tape': c0['key'], 'gen': c0['gen'], 'start': c0['start'], 'configs': [u['cfg'] for u in c0['runs']][:8],
                'default_run': {k: c0['runs'][0][k] for k in ('pc', 'sp', 'r', 't', 'regs')}})
    for i, clause in fails:
        c = live[i]
        cl, _, ri = clause.partition('@')
        u = c['runs'][int(ri) - 1]
        lead = [v for v in c['runs'] if v['cls'] == u['cls']][0]
        kind = c['key'].split('/dly')[0] if c['key'].startswith('custom/') else c['key']
        slim = dict(c)
        slim['runs'] = [{k: v for k, v in x.items() if k != 'pages'} for x in (c['runs'][0], lead, u)]
        slim.pop('irq', None)
        slim.pop('slow', None)
        rep.violation('e2e:%s:%s:%s' % (kind, cl, u['cfg']),
                      'tape %s (--start %d): configuration [%s] vs [%s]: %s differs (pc %d/%d sp %d/%d R %d/%d T %d/%d) %s'
                      % (c['key'], c['start'], u['cfg'], lead['cfg'] if cl in ('registers', 'r', 'tstates', 'ram', '7ffd') else ('the bytes on the tape' if cl == 'data-bytes' else c['runs'][0]['cfg']),
                         cl, u['pc'], lead['pc'], u['sp'], lead['sp'], u['r'], lead['r'], u['t'], lead['t'], u['err'][:120]), slim)
    rep.extra['end_to_end'] = dict(tapes=len(live), custom=ncustom, rom_block_over_stack=nstack, loop_shapes=sorted(shapes), bin2tap=nb12,
                                   runs=sum(len(c['runs']) for c in live), not_loading_by_default=notload,
                                   python_runs=sum(1 for c in live for u in c['runs'] if 'python=1' in u['cfg']),
                                   environments_dropped=sum(len(c.get('dropped') or []) for c in live))
    return len(live)


def run(tier):
    rep = Report(PID, tier)
    wd = workdir('c13')
    sd = seed()
    cbuild.build()
    accs = accdrv.export_accelerators()
    if len(accs) < 30:
        raise MachineryError('only %d accelerators exported' % len(accs))
    for cfg in ('TapeDeck_p0.cfg', 'TapeDeck_p1.cfg'):
        r = tlc.model_check('load', 'TapeDeckMC', cfg, timeout=600, coverage=False)
        rep.add_tlc(r, cfg.replace('.cfg', ''))
        rep.model_violation(r, cfg.replace('.cfg', ''))
        if r.distinct < 1000:
            raise MachineryError('TapeDeck model: only %d states' % r.distinct)
    obligations(rep, accs, tier, sd, wd)
    binding(rep, tier, sd, wd)
    end_to_end(rep, accs, tier, sd, wd)
    rep.rule = ('(A) every accelerator table entry x counter value x (iterations to the next edge, edge position inside the iteration) and '
                'every A x carry x {JR,JP} enumerated by TLC; (B) scenarios = loop shape x {near, limit, level, late, iff, blockend} / DEC A '
                'variants / port-read programs over 1-3 block tapes x {py, c} x speed-up configuration; (C) tapes = bin2tap output (C12 '
                'generator) and custom-loader TZX tapes (relocated LD-BYTES around each usable recognised loop shape, delay constant, '
                'turbo/headerless blocks, a ROM-loaded block over the live return stack whose words give PC and the return address of the caller) x configuration matrix, '
                'and tapes of 1-3 blocks for the same relocated loader with EI instead of DI under IM 2 (48K and 128K), every block start set to a chosen '
                'frame position (0..40 and -40..-1 T-states around the frame boundary, via a leading pulse, the pause and first-edge) x '
                '{python 0/1, pause, accelerator, cmio, fast-load}, and slow-consumer programs (IM 1: EI, HALT x N or a busy loop of N frames, N in 1..400, before '
                'every CALL LD-BYTES for 2-3 headerless blocks of 2..300 bytes, some frames of work after every load) x {python, accelerator, cmio, fast-load}; distinct_nontrivial = distinct (scenario key) and (tape key, configuration)')
    rep.assumptions = [
        'tap2sna does not write the clock into the snapshot; T is read from simulator.registers at the moment tap2sna takes the snapshot '
        '(wrapper around tap2sna.get_state), everything else comes from the snapshot file via the independent decoder',
        'all RAM is compared through CRC-32 of every 256-byte page',
        'runs are compared with --start (DESIGN note); polarity / first-edge select the tape-side environment and are compared only inside '
        'their own environment; an environment whose default run does not load the tape is dropped (counted as drift)',
        'generated tapes keep at least 400 ms between blocks; zero-gap blocks are covered only by the deterministic probe '
        'e2e:probe/zero-gap-pause (pause=0 vs pause=1)',
        'interrupt-enabled loaders run under IM 2 with a 10-byte routine (the ROM IM 1 routine takes ~1000 T-states and the relocated '
        'LD-BYTES then never sees 256 clean leader pairs, i.e. the tape does not load); frame positions of block starts are taken from '
        'the real parser (tap2sna._get_tape_blocks + tape.get_edges) in a dry run',
        'slow-consumer programs are run with pause=0 only when no wait exceeds one frame (with the deck running a late consumer gets a '
        'different block: not a tape that loads); fast-load=0 only where every leader is long enough for the ROM routine',
        'obligations start every sampling loop at its first byte with the registers the loop itself assumes (EAR mask register, C=0xFE for '
        'IN r,(C)); pulses shorter than one loop period between two samples are outside the model',
    ]
    rmworkdir('c13')
    return rep.finish()


BIND_KEYS = ('S', 'r', 'ov', 'tp', 'stops', 'fuel', 'obs')


def _replay_oblig(rp, path, wd):
    """The obligations of one accelerator entry (as it is in the tree now) at the recorded counter value, or of the DEC A loops
    at the recorded value of A, with all iteration counts / edge positions of the thorough tier."""
    accs, cvs, avs = [], [], []
    if 'kind' in rp:
        replaylib.need(rp, path, 'a')
        avs = [rp['a']]
    else:
        replaylib.need(rp, path, 'name', 'counter_value')
        accs = [a for a in accdrv.export_accelerators() if a['name'] == rp['name']]
        cvs = [rp['counter_value']]
        if not accs:
            print('  accelerator %s is not in the table any more' % rp['name'])
            return []
    inp = dict(accs=accs, cvs=cvs, avs=avs, thorough=1, ks=[1, 2, 3, 5], xs=[0, 1, -1], lits=[1, 3], limroom=6)
    p = os.path.join(wd, 'accs.json')
    with open(p, 'w') as f:
        json.dump(inp, f, separators=(',', ':'))
    r = tlc.run(os.path.join(tlc.SPEC, 'load'), 'AccOblig', 'AccOblig.cfg', env={'ACCS': p}, tag='AccOblig', timeout=3000)
    tlc.check_machinery(r, 'AccOblig')
    total = len(accs) * len(cvs) + 4 * len(avs)
    if r.distinct != 2 * total:
        raise MachineryError('AccOblig: expected %d states, TLC found %d\n%s' % (2 * total, r.distinct, r.out[-2000:]))
    found = []
    for code, clause in sorted(set(r.fails)):
        ai, cv = code // 1000, code % 1000
        if ai > 900:
            found.append('oblig:%s:%s: DEC A loop closed form (A=%d, carry=%d) differs from the plain Z80 run'
                         % (('dec-a-jr', 'dec-a-jr', 'dec-a-jp', 'dec-a-jp')[ai - 901], clause, cv, ai % 2))
        else:
            found.append('oblig:%s:%s: counter value %d: fast-forward and plain execution of its own code bytes disagree' % (accs[ai - 1]['name'], clause, cv))
    return found


def replay(path):
    """./check C13 --replay replays/C13-n.json : the obligations of the recorded accelerator entry again / the recorded scenario
    on LoadTracer + both simulators again / the recorded tape made again and loaded by tap2sna under the recorded configurations
    again; judged by AccOblig / PlayerCases / SnapGroups."""
    d, rp = replaylib.load(path, PID)
    wd = workdir('replay-c13')
    cbuild.build()
    key = str(d.get('key', ''))
    if 'sc' in rp:
        accdrv._skool()
        c = accdrv.run_scenario(rp['sc'])
        rs, fails = tlc.judge('load', 'PlayerCases', 'PlayerCases.cfg', [{k: c[k] for k in BIND_KEYS}], casefile=os.path.join(wd, 'player.json'))
        if any(cl == 'spec-no-stop' for _, cl in fails):
            raise MachineryError('scenario %s: the specification run does not reach the stop address' % c['key'])
        found = ['bind:%s:%s: real run (%s) differs from the plain specification run in %s' % (c['key'], cl, cl.rpartition(':')[0], cl.rpartition(':')[2])
                 for _, cl in fails]
    elif 'runs' in rp:
        replaylib.need(rp, path, 'key', 'start', 'expect')
        if not rp['key'].startswith('probe/'):
            replaylib.need(rp, path, 'regen', 'gen')
        c = accdrv.replay_tape(os.path.join(wd, 't'), rp)
        found = []
        if c.get('skipped'):
            print('  the tape does not load in the reference run any more (%s): nothing to compare' % c['skipped'])
        elif not c['key'].startswith('probe/') and (not c['runs'] or c['runs'][0]['cfg'] != 'default' or c['runs'][0]['data'] != c['expect']):
            print('  the tape does not load in the default configuration any more (%s): outside the property'
                  % (c['dropped'] or (c['runs'] and c['runs'][0]['err'])))
        else:
            rs, fails = tlc.judge('load', 'SnapGroups', 'SnapGroups.cfg', [{k: c[k] for k in ('start', 'expect', 'runs')}],
                                  casefile=os.path.join(wd, 'snap.json'))
            for _, clause in fails:
                cl, _, ri = clause.partition('@')
                u = c['runs'][int(ri) - 1]
                found.append('e2e:%s:%s:%s: tape %s (--start %d): pc %d sp %d R %d T %d %s' % (c['key'], cl, u['cfg'], c['key'], c['start'], u['pc'], u['sp'],
                                                                                         u['r'], u['t'], u['err'][:120]))
    elif key.startswith('oblig:') or 'counter_value' in rp or 'kind' in rp:
        found = _replay_oblig(rp, path, wd)
    elif 'tlc_output_tail' in rp:
        found = []
        for cfg in ('TapeDeck_p0.cfg', 'TapeDeck_p1.cfg'):
            r = tlc.model_check('load', 'TapeDeckMC', cfg, timeout=600, coverage=False)
            found += ['model:%s:%s' % (cfg.replace('.cfg', ''), inv) for inv in r.violated]
    elif key.startswith('bind:'):
        raise MachineryError('unusable replay file %s: written before scenarios were recorded with their cases' % path)
    else:
        raise MachineryError('unusable replay file %s: not an obligation, scenario or tape case' % path)
    rmworkdir('replay-c13')
    return replaylib.verdict(PID, path, found)
