"""C18 - annotations and instructions survive conversion intact; line width is respected (DESIGN section 4 C18).

(A) spec/doc/Wrap.tla is model-checked (Wrap_mc.cfg): greedy placement keeps every word in order exactly once,
    only single-word lines exceed the width, rows of an instruction group are max(rowspan, #lines).
(B) generated documents go through the real skool2asm / skool2html / sna2skool; the projected lines are judged
    by spec/doc/WrapCases.tla (words in order exactly once per section and instruction group, instructions once
    with address and operation, width rule with its exceptions, warnings, brace rules of the skool format);
    the same clauses for #LIST / #TABLE blocks behind register names and in instruction-level comments, where
    the line - prefix, register name or instruction field included - is what must not exceed the line width.
"""
import collections
import multiprocessing as mp
import os
import threading

from ..lib import cbuild, tlc
from ..lib.common import workdir, rmworkdir, seed, log, MachineryError
from ..lib.report import Report
from ..drivers import wrapdrv

PID = 'C18'
TLC_FIELDS = ('tool', 'W', 'cwmin', 'ind', 'iw', 'eop', 'dot', 'exc', 'exp', 'out')
ITEM_FIELDS = ('t', 'sec', 'w', 'st', 'dotc', 'tabs', 'k', 'ins')


def doc_specs(tier, sd):
    """(seed, docid, W, kind): every width 40..200 systematically (sweep documents hold paragraphs and
    instruction comments whose last line ends at avail, avail-1, avail-2, avail-3 for both skool2asm's and
    sna2skool's arithmetic) + random documents over random widths and settings"""
    specs = []
    docid = 0
    reps = 1 if tier == 'quick' else 12
    for rep in range(reps):
        for W in range(40, 201):
            docid += 1
            specs.append((sd * 1000003 + docid, docid, W, 'sweep'))
    nrand = 260 if tier == 'quick' else 6000
    import random
    rng = random.Random(sd * 31 + 5)
    for i in range(nrand):
        docid += 1
        W = rng.choice([40, 41, 50, 60, 79, 79, 80, 100, 120, 132, 199, 200, rng.randint(40, 200), rng.randint(40, 200)])
        specs.append((sd * 1000003 + docid, docid, W, 'random'))
    return specs


LINE_FIELDS = ('kind', 'w', 'n', 'wl', 'cl', 'fl', 'op', 'addr', 'rs', 'warn', 'tab', 'cols', 'lf')


def slim(c):
    """what TLC gets: expected items as records, output lines as tuples (keeps the JSON small)"""
    d = {k: c[k] for k in TLC_FIELDS}
    d['exp'] = [{k: it[k] for k in ITEM_FIELDS} | {'tabs': [{'cols': t['cols'], 'minw': t['minw']} for t in it['tabs']]}
                for it in c['exp']]
    d['out'] = [[l[k] for k in LINE_FIELDS] for l in c['out']]
    return d


JUDGES = 3
_CASES = None


def judge_batch(job):
    b, e, casefile = job
    rj, fails = tlc.judge('doc', 'WrapCases', 'WrapCases.cfg', [slim(c) for c in _CASES[b:e]], casefile=casefile,
                          timeout=3000, workers=4)
    return b, e - b, rj, fails


def vacuity(cases, strict):
    """every class the property quantifies over must actually have been exercised (strict: raise if not; when
    the tools misbehave the measured classes shift - then the violations are the message, not the coverage)"""
    n = collections.Counter()
    widths = collections.defaultdict(set)
    for c in cases:
        t = c['tool']
        if c.get('regdot') and c['out']:
            n[t + ':reg-continuation-line-begins-with-dot'] += c['regdot']
        for it in c['exp']:
            if it['t'] == 'G':
                n['%s:k%d' % (t, it['k'])] += 1
                n['%s:%s' % (t, it['name'].split(':')[1])] += 1
                n['%s:brace:%s' % (t, it['name'].split(':')[2])] += 1
            else:
                n['%s:%s' % (t, it['name'])] += 1
                if it['tabs']:
                    n[t + ':table'] += 1
                if any(s[2] for s in it['st']):
                    n[t + ':nowrap'] += 1
            # register prefixes (any colon-terminated word): families, case, one letter, unprefixed registers behind
            # them, prefix / table changing in mid list - counted where the tool produced output that is judged
            if it['name'] == 'regs' and c['out']:
                for pc in it.get('pcls', ()):
                    n['%s:reg-prefix:%s' % (t, pc)] += 1
            # tables with cells that span rows / columns / both, transparent cells, header cells below the first row
            place = 'reg' if it['name'] == 'regs' else 'ins' if it['t'] == 'G' else 'par'
            for tb in it['tabs']:
                for f in tb['features']:
                    n['%s:%s-table-%s' % (t, place, f)] += 1
            # blocks behind register names and in instruction-level comments: place, kind, width class
            for cl in it['cls']:
                parts = cl.split(':')
                n['%s:%s-%s' % (t, parts[0], parts[1])] += 1
                if parts[1] == 'tab':
                    n['%s:%s-tab:%s' % (t, parts[0], parts[2])] += 1
                    n['%s:%s-tab:%s' % (t, parts[0], parts[3])] += 1
        if t == 'skool':
            # <wrapalign> items / rows that sna2skool wrapped, aligned with a text 2+ blanks behind its '{' / '|'
            for k, v in c.get('wa', {}).items():
                n['skool:wrapalign-' + k] += v
            if c.get('wa', {}).get('multi'):
                widths['wamulti'].add(c['W'])
            if c.get('wa', {}).get('near'):
                widths['wanear'].add(c['W'])
            # the closing brace sna2skool adds: glued to a last line that then ends exactly at the width, or
            # pushed to a row of its own because the last line is full
            o = c['out']
            for a, b in zip(o, o[1:] + [None]):
                if a['kind'] == 'i' and a['w'] and a['w'][-1] % 10 and a['w'][-1] > 9 and a['n'] == c['W']:
                    n['skool:closing-brace-ends-at-W'] += 1
                    widths['glued'].add(c['W'])
                if (b and a['kind'] == 'i' and b['kind'] == 'i' and b['op'] == 0 and b['w'] and all(0 < x < 10 for x in b['w'])
                        and a['n'] in (c['W'], c['W'] - 1)):
                    n['skool:closing-brace-pushed-from-full-line'] += 1
                    widths['pushed'].add(c['W'])
        if t == 'asm':
            # tables in places narrower than a description line (what stands in front of them is more than '; '):
            # fitting exactly / one column too wide / in the band (available, line width - 2] / wider still
            for l in c['out']:
                if l['tab'] == 1 and l['n'] - l['cl'] > 2:
                    place = 'ins' if l['kind'] == 'i' else 'reg'
                    over = l['n'] - c['W']
                    cls = ('fits-exactly' if over == 0 else 'fits' if over < 0 else 'over-by-1' if over == 1 else 'over')
                    n['asm:%s-table-%s' % (place, cls)] += 1
                    if over > 0 and l['cl'] <= c['W'] - 2 and l['kind'] == 'c':
                        n['asm:reg-table-in-band'] += 1
                        widths['band'].add(c['W'])
                        if l['warn']:
                            n['asm:reg-table-in-band-warned'] += 1
                    if l['kind'] == 'c' and over <= 0:
                        widths['regfit'].add(c['W'])
        for l in c['out']:
            if c['W'] and l['n'] > c['W']:
                n[t + ':overlong-line'] += 1
            if c['W'] and l['n'] == c['W'] and l['kind'] in 'ci':
                n[t + ':exactly-W'] += 1
                widths[t + l['kind']].add(c['W'])
            if l['warn']:
                n[t + ':warned'] += 1
            if l['tab']:
                n[t + ':table-line'] += 1
    need = ['%s:k%d' % (t, k) for t in ('asm', 'html', 'skool') for k in range(1, 7)]
    need += ['%s:%s' % (t, s) for t in ('asm', 'html', 'skool') for s in ('title', 'desc', 'regs', 'start', 'mid', 'end')]
    need += ['asm:tight-asm-%d' % d for d in range(4)] + ['skool:tight-skool-%d' % d for d in range(4)]
    need += ['%s:brace:%s' % (t, v) for t in ('asm', 'html', 'skool')
             for v in ('plain', 'open-first', 'close-last', 'both', 'nested', 'more-open', 'more-close')]
    need += ['skool:brace:close-then-open', 'skool:closing-brace-ends-at-W', 'skool:closing-brace-pushed-from-full-line']
    need += ['%s:reg-%s' % (t, k) for t in ('asm', 'html', 'skool') for k in ('tab', 'list', 'tight-asm', 'tight-skool', 'plain')]
    need += ['%s:ins-%s' % (t, k) for t in ('asm', 'html', 'skool') for k in ('tab', 'list')]
    need += ['%s:reg-prefix:%s' % (t, k) for t in ('asm', 'html', 'skool') for k in wrapdrv.PREFIX_CLASSES]
    need += ['asm:reg-tab:' + k for k in wrapdrv.WCLS + ['exact', 'wrap']] + ['asm:ins-tab:' + k for k in wrapdrv.WCLS[:7]]
    need += ['asm:%s-table-%s' % (p, k) for p in ('reg', 'ins') for k in ('fits-exactly', 'fits', 'over-by-1', 'over')]
    need += ['asm:reg-table-in-band', 'asm:reg-table-in-band-warned']
    need += ['%s:%s-table-%s' % (t, p, f) for t in ('asm', 'html') for p in ('par', 'reg', 'ins')
             for f in ('span-row', 'span-col', 'span-both', 'transparent', 'header-below-first-row')]
    need += ['%s:%s-table-span-both-cells-to-the-right' % (t, p) for t in ('asm', 'html') for p in ('par', 'reg')]
    need += ['skool:wrapalign-' + k for k in ('wrapped', 'multi', 'near', 'multi:extra1', 'multi:extra2', 'multi:extra3')]
    need += ['skool:wrapalign-%s:%s' % (a, k) for a in ('multi', 'near') for k in ('list', 'table', 'udgtable')]
    need += [t + ':reg-continuation-line-begins-with-dot' for t in ('asm', 'html', 'gen', 'skool')]
    need += ['asm:table', 'html:table', 'skool:nowrap', 'asm:overlong-line', 'skool:overlong-line', 'asm:exactly-W',
             'skool:exactly-W', 'asm:warned', 'asm:table-line']
    missing = [k for k in need if not n[k]]
    # the off-by-one classes must be present at (nearly) every width 40..200, not just somewhere
    for cls in ('glued', 'pushed', 'asmi', 'asmc', 'skooli', 'skoolc', 'band', 'regfit', 'wamulti', 'wanear'):
        n['widths-covered:' + cls] = len(widths[cls])
        # (a register table that fits is in 4 of 6 sweep documents, one in the band in every one; a <wrapalign>
        # block whose wrapped text begins 2+ blanks behind its '{' / '|' in 9 of 20)
        if len(widths[cls]) < (90 if cls == 'regfit' else 40 if cls in ('wamulti', 'wanear') else 150):
            missing.append('%s at only %d of 161 widths' % (cls, len(widths[cls])))
    if missing and strict:
        raise MachineryError('C18 generator did not exercise: %s' % ', '.join(missing))
    n['classes-missing'] = len(missing)
    return n


def run(tier):
    rep = Report(PID, tier)
    wd = workdir('c18')
    sd = seed()
    # (A) the layout model itself, in the background while the real tools are driven
    mc = {}

    def model_check():
        try:
            mc['r'] = tlc.model_check('doc', 'Wrap', 'Wrap_mc.cfg', workers=4, timeout=1800)
        except Exception as e:      # noqa: BLE001
            mc['e'] = e
    th = threading.Thread(target=model_check)
    th.start()
    # (B) drive the real tools
    cbuild.repo_only()
    specs = doc_specs(tier, sd)
    nproc = 14
    chunks = [(os.path.join(wd, 'p%d' % k), specs[k::nproc]) for k in range(nproc)]
    with mp.get_context('fork').Pool(nproc) as pool:
        parts = pool.map(wrapdrv.worker, chunks)
    cases = [c for p in parts for c in p]
    log('C18: %d documents, %d cases (%.1fs)' % (len(specs), len(cases), rep.timer.s()))
    drift = 0
    narrow = []
    bare_lf = []
    allfails = {}
    # about half of a TLC run is reading the case file (one thread): the batches are judged by JUDGES TLC
    # processes side by side (own process each: the TLC runner names its scratch directory after the pid)
    global _CASES
    _CASES = cases
    size = min(6000, -(-len(cases) // JUDGES))
    jobs = [(b, min(b + size, len(cases)), os.path.join(wd, 'cases-%d.json' % b)) for b in range(0, len(cases), size)]
    with mp.get_context('fork').Pool(JUDGES) as pool:
        results = pool.map(judge_batch, jobs, chunksize=1)
    _CASES = None
    for b, n, rj, fails in results:
        rep.add_tlc(rj, 'WrapCases', traces=n)
        log('C18: judged %d cases (%.1fs)' % (n, rep.timer.s()))
        drift += sum(1 for tag, _ in rj.notes if tag == 'DRIFT')
        narrow += [b + int(v.split(',')[0]) - 1 for tag, v in rj.notes if tag == 'NARROW']
        bare_lf += [b + int(v.split(',')[0]) - 1 for tag, v in rj.notes if tag == 'TERMINATOR']
        for i, clause in fails:
            allfails[b + i] = clause
    th.join()
    log('C18: model check done (%.1fs)' % rep.timer.s())
    if 'e' in mc:
        raise mc['e']
    r = mc['r']
    rep.add_tlc(r, 'Wrap_mc')
    rep.model_violation(r, 'Wrap_mc')
    never = [a for a, (d, t) in r.coverage.items() if t == 0]
    if never:
        raise MachineryError('Wrap_mc: actions never taken: %s' % never)
    gen_bad = [(i, cl) for i, cl in allfails.items() if cases[i]['tool'] == 'gen']
    if gen_bad:
        i, cl = gen_bad[0]
        raise MachineryError('C18: the generated skool file of %s is not what the generator meant (%s); %d such cases'
                             % (cases[i]['key'], cl, len(gen_bad)))
    for i, clause in sorted(allfails.items()):
        c = cases[i]
        cl, _, ei = clause.partition('@')
        item = c['exp'][int(ei) - 1]['name'] if ei and int(ei) <= len(c['exp']) else 'entry'
        # key = tool : failing clause : section kind, or for an instruction group the brace variant of its comment
        parts = item.split(':')
        key = '%s:%s:%s' % (c['tool'], cl, parts[2] if parts[0] == 'group' else parts[0])
        d = c['doc']
        rep.violation(key, '%s on document seed=%d id=%d kind=%s W=%d: clause %s at item %s (%s)'
                      % (c['tool'], d['seed'], d['docid'], d['kind'], d['W'], cl, ei, item),
                      dict(case=c['key'], clause=clause, item=item, doc=d,
                           inputs=wrapdrv.reproduce(d['seed'], d['docid'], d['W'], d['kind'], wd),
                           exp=c['exp'][int(ei) - 1] if ei and int(ei) <= len(c['exp']) else None, out=c['out']))
    counts = vacuity(cases, strict=not rep.violations)
    # entry pages judged whose register section has a prefix that begins with a letter other than I / O
    non_io_html = counts['html:reg-prefix:non-io']
    rep.extra['html_cases_with_non_io_register_prefix'] = non_io_html
    # items / rows of <wrapalign> blocks that sna2skool wrapped with the continuation lines aligned to a text that
    # begins two or more blanks behind its '{' / '|'
    wa_multi = counts['skool:wrapalign-multi']
    rep.extra['sna2skool_wrapalign_rows_wrapped_with_multi_space_cell_start'] = wa_multi
    rep.extra['sna2skool_wrapalign_rows_of_those_breaking_within_the_extra_blanks_of_the_width'] = counts['skool:wrapalign-near']
    # register continuation lines ('; .  text') whose text itself begins with a dot, per route
    regdot = {t: counts[t + ':reg-continuation-line-begins-with-dot'] for t in ('asm', 'html', 'gen', 'skool')}
    rep.extra['register_continuation_lines_whose_text_begins_with_a_dot'] = regdot
    if not regdot['asm'] or not regdot['html'] or (not regdot['skool'] and not rep.violations):
        raise MachineryError('C18: no register continuation line whose text begins with a dot was judged: %s' % regdot)
    if not wa_multi:
        raise MachineryError('C18: sna2skool wrapped no <wrapalign> item / row whose text begins 2+ blanks behind its { or |')
    if not non_io_html:
        raise MachineryError('C18: no entry page with a register prefix other than I*/O* was judged on the HTML route')
    rep.drift = drift + len(bare_lf) + len(narrow)
    rep.extra['drift_wrap_points_or_row_packing'] = drift
    rep.extra['drift_table_not_narrowed_to_narrower_place'] = dict(
        cases=len(narrow), what='skool2asm narrows a :w column only until the table is as wide as a description line '
        '(line-width - 2, TableWriter.max_width), as documented for #TABLE; behind a register name or in an instruction '
        'comment field the lines then exceed the line width although a narrower rendering would have fitted there. '
        'More than the documentation promises (lead triage): counted; the warning is still demanded (warn-table, warn-row)',
        example=cases[narrow[0]]['key'] if narrow else None,
        repro="skool: '@start' / '; T' / ';' / '; .' / ';' / '; HL #TABLE(default,:w) { aaaa bbbb cccc dddd eeee ffff gggg hhhh "
              "iiii jjjj kkkk llll mmmm nnnn ooo } TABLE#' / 'c32768 RET'; skool2asm -q -> 82-column lines + table warning")
    rep.extra['drift_bare_lf_in_crlf_mode'] = dict(
        cases=len(bare_lf), what='skool2asm with crlf=1 joins the lines of a wrapped register description with a bare LF '
        '(skoolasm.py print_registers); not part of C18 as stated (lead triage) - counted, pieces judged as lines',
        example=cases[bare_lf[0]]['key'] if bare_lf else None,
        repro="skool: '@start' / '; T' / ';' / '; .' / ';' / '; HL first second third fourth fifth sixth seventh eighth ninth "
              "tenth eleventh twelfth thirteenth fourteenth' / 'c40000 RET'; skool2asm -q -P crlf=1")
    if drift or bare_lf or narrow:
        print('NOTE property=C18 drift: %d cases differ from the greedy/row model, %d cases with bare LF in CRLF mode, '
              '%d cases with a :w table not narrowed below the description width in a narrower place'
              % (drift, len(bare_lf), len(narrow)))
    for c in cases:
        if c['tool'] != 'gen':
            for it in c['exp']:
                rep.count((c['tool'], c['W'], it['name'], len(it['w'])))
    rep.evaluations = 3 * len(specs)
    rep.sample({k: cases[1][k] for k in ('key', 'tool', 'W', 'cwmin')} | {'exp0': cases[1]['exp'][0], 'out0': cases[1]['out'][:2]})
    rep.extra['class_counts'] = {k: v for k, v in sorted(counts.items())}
    rep.extra['documents'] = len(specs)
    rep.rule = ('documents of unique word tokens (some with leading punctuation: 1-3 dots, * - : > ( < &; the input lines of '
                'the skool file - register continuation lines among them - are broken in front of such words in 2 of 3 cases) (titles, paragraphs, registers with prefixes - Input/Output/In/I/O, other '
                'I*/O* words, words with any other first letter in either case, one letter; first register with or without '
                'one, unprefixed registers behind prefixed ones, prefix and table changing in mid list, back to input - and '
                'delimited names, start/mid/end '
                'comments, groups of 1..6 instructions, braces in every allowed position, #LIST/#TABLE with wrap flags) x '
                'every line width 40..200 (sweep documents whose last comment line ends at avail-0..3 for skool2asm and '
                'sna2skool) + random widths/instruction widths/indent/tab/crlf/comment-width-min; each document through '
                'skool2asm.main, skool2html.main, sna2skool.main; distinct_nontrivial = distinct (tool, width, section '
                'kind/group class, number of words). Register descriptions and instruction-level comments also hold '
                '#TABLE / #LIST blocks (alone / behind / in front of / between text, wrap flags, header rows, 1-3 columns, '
                'with and without a :w column): every sweep document has two register tables whose widths are 2 of the '
                '12 classes a-3..a+3, mid, t-1..t+2 (a = width left behind the register name, t = line width - 2) so that '
                'each width sees the band (a, t], a list or a plain description ending at / near a, and one instruction '
                'comment with a table of width a-3..a+3 of the comment field or a tight list; every sweep document and some '
                'random ones also hold (description / start / mid-block / end comment in turn) a #LIST / #TABLE / #UDGTABLE block, '
                '<wrapalign> in 3 of 5 (else <nowrap> / no flag), with an item or a cell (any column) whose text begins 1-4 blanks '
                'behind its { or | and wraps tightly at the width left of a line beginning in that column')
    rep.assumptions = ['html.parser tokenises the entry pages (trusted projection)',
                       'tables: cells with =c<n>, =r<n>, both, =h (first row and elsewhere), =t in every place tables stand; spans stay '
                       'inside the grid, every row has a cell of its own and every column a cell of colspan 1; =t never in the '
                       'first column nor beside another =t cell; at most one :w column (narrowest width unknown, table-width '
                       'not judged, if a spanning cell lies over it); at most one block per register description / instruction '
                       'comment; block macros as macro arguments and in titles are not generated',
                       'table cells are compared in groups: one group per horizontal extent (first column, colspan), groups '
                       'ordered by (first column, colspan), cells of a group top to bottom in source order - read from character '
                       'positions in the ASM output, from the HTML table model (colspan/rowspan attributes) in the pages',
                       'word tokens carry braces only at their ends; control files use one directive per paragraph (no dot directives)',
                       'a line is measured in characters; a tab indent counts 8 columns for the width rule, 1 for the warning',
                       'control files: items / cells begin 1-4 blanks behind their { / | (also #UDGTABLE; the skool file for skool2asm / '
                       'skool2html has single blanks and #TABLE); sna2skool keeps such blanks inside a line, so a break that the '
                       'single-blank greedy reference would not make there is counted as drift; the <wrapalign> coverage counters are '
                       'measured on the text sna2skool wrote (no verdict depends on them)']
    rmworkdir('c18')
    return rep.finish()


def replay(path):
    """./check C18 --replay replays/C18-n.json : regenerate that one document, rerun the three tools, judge again"""
    import json
    with open(path) as f:
        d = json.load(f)
    doc = (d.get('replay') or {}).get('doc')
    print('replay of %s: key %s' % (path, d.get('key')))
    if not doc:
        print('  (model violation: rerun ./check C18)')
        return 0
    wd = workdir('c18-replay')
    cbuild.repo_only()
    cases = wrapdrv.worker((os.path.join(wd, 'p0'), [(doc['seed'], doc['docid'], doc['W'], doc['kind'])]))
    r, fails = tlc.judge('doc', 'WrapCases', 'WrapCases.cfg', [slim(c) for c in cases], casefile=os.path.join(wd, 'cases.json'))
    for i, clause in fails:
        cl, _, ei = clause.partition('@')
        item = cases[i]['exp'][int(ei) - 1]['name'] if ei else 'entry'
        print('  %s: clause %s at item %s (%s)' % (cases[i]['key'], cl, ei, item))
    rmworkdir('c18-replay')
    print('VIOLATION reproduced' if fails else 'no violation on replay')
    return 1 if fails else 0
