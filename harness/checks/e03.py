"""E03 (extension) - ref files and configuration: RefParser, skool2html's ref file chain, skoolkit.ini / -I.

(A) spec/ref/RefFile.tla (a writer of ref files next to the documented reader, RefDefs.tla) is model-checked:
    the reader recovers what was meant (parsing is a function of the lines), an escaped ';;' / '[[' line is never a
    comment / header, a later key overrides an earlier one, '+' / repeated sections / later files merge as
    concatenation, sequential reading composes, defaults < ini < -I is the dictionary of the three layers in order.
(B) generated ref / ini files are run through the real code (drivers/refdrv.py): RefParser's public queries;
    skool2html.main with game*.ref, [Config] RefFiles, command line ref files, -c S/L, -W (observed from an
    HtmlWriter subclass in init(); GameDir as the directory that appears), skoolkit.ini + -I (observed as writer.base /
    writer.case); --show-config of
    ten commands and the behaviour of skool2ctl / skool2asm under skoolkit.ini + -I; skool2html -R / -r.
    spec/ref/RefCases.tla reads the same files with the documented reader and compares (TLC decides).
What the documentation does not state (trailing blanks, blank lines at the end of a section, a repeated plain section,
order of game*.ref, order within a family, numbers that are not numbers) is counted as drift when skoolkit's present
choice changes, never as a violation; three standing deviations from the literal text (--show-config printed before -I is
applied, '[X+]' replacing a built-in text section, -c Config/... lines added twice) are counted under standing_deviations.
"""
import json
import multiprocessing as mp
import os
from collections import Counter

from ..lib import cbuild, tlc
from ..lib.common import workdir, rmworkdir, seed, log, MachineryError
from ..lib.report import Report
from ..drivers import refdrv

PID = 'E03'
JENV = {'JAVA_TOOL_OPTIONS': '-Xss64m'}      # the reader recurses once per line (the default ref file has ~650 lines)
DROP = ('meta', 'text', 'key')


def lines_of(c):
    """all generated ref/ini lines of a case, as text (for vacuity counters and violation keys only)"""
    if c['k'] == 'parse':
        return c['text']
    m = c['meta']
    if c['k'] == 'site':
        return list(m['files'].values())
    return [m['ini'] or []]


def features(c, cnt):
    files = lines_of(c)
    seen = set()
    for f in files:
        open_ = False
        for l in f:
            s = l.rstrip()
            if s != l:
                cnt['line with trailing white space'] += 1
            if s.startswith(';;'):
                cnt['escaped ;;'] += 1
            elif s.startswith('[['):
                cnt['escaped [['] += 1
                if s.endswith(']'):
                    cnt['escaped [[ line that looks like a header'] += 1
            elif s.startswith('[') and s.endswith(']'):
                n = s[1:-1]
                if n.endswith('++'):
                    cnt['header ++'] += 1
                elif n.endswith('+'):
                    cnt['header + (%s)' % ('section exists' if n[:-1] in seen else 'new section')] += 1
                    seen.add(n[:-1])
                else:
                    if n in seen:
                        cnt['plain header repeated'] += 1
                    seen.add(n)
                if n.count(':') >= 2:
                    cnt['header with two or more colons'] += 1
                if n == '' or n == '+':
                    cnt['header with empty name'] += 1
                open_ = True
            elif s.startswith(';'):
                cnt['comment'] += 1
            elif not open_:
                cnt['line before the first header'] += 1
            elif s == '':
                cnt['blank line'] += 1
            elif s.endswith('\\'):
                cnt['line ending in a backslash'] += 1
    if len(files) > 1:
        cnt['several files'] += 1
    if c['k'] == 'site':
        m = c['meta']
        if len(m['auto']) > 1:
            cnt['site: several game*.ref'] += 1
        if m['cmd']:
            cnt['site: ref files on the command line'] += 1
        if any(l.startswith('RefFiles=') and l.strip(';') != 'RefFiles=' for n in m['auto'] for l in m['files'][n]):
            cnt['site: RefFiles in an automatically read file'] += 1
        if any(s.startswith('Config/') for s in m['cli']):
            cnt['site: -c Config/...'] += 1
        if any(not s.startswith('Config/') for s in m['cli']):
            cnt['site: -c S/L'] += 1
        if any('HtmlWriterClass' in l for f in m['files'].values() for l in f):
            cnt['site: HtmlWriterClass in a ref file, overridden by -W'] += 1
        if any(s.startswith('Config/GameDir=') for s in m['cli']):
            cnt['site: -c Config/GameDir'] += 1
        if any(l.startswith('GameDir=') for n in m['auto'] for l in m['files'][n]):
            cnt['site: GameDir in an automatically read file'] += 1
        elif any(l.startswith('GameDir=') for f in m['files'].values() for l in f):
            cnt['site: GameDir only in a file that is not read automatically'] += 1
        if m['ini'] is not None:
            cnt['site: skoolkit.ini'] += 1
        if m['icli']:
            cnt['site: -I'] += 1
    if c['k'] == 'cfg':
        m = c['meta']
        cnt['cfg: ' + m['tool']] += 1
        if m['home']:
            cnt['cfg: skoolkit.ini in ~/.skoolkit'] += 1
        if m['cli']:
            cnt['cfg: -I'] += 1
        if m['eff']:
            cnt['cfg: effective value seen in behaviour of ' + m['tool']] += 1
        if m['unknown_shown']:
            cnt['cfg: unknown parameter of skoolkit.ini shown by --show-config'] += 1


REQUIRED = ['escaped ;;', 'escaped [[', 'escaped [[ line that looks like a header', 'header ++', 'header + (section exists)',
            'header + (new section)', 'plain header repeated', 'header with two or more colons', 'comment',
            'line before the first header', 'blank line', 'line ending in a backslash', 'line with trailing white space',
            'several files', 'site: several game*.ref', 'site: ref files on the command line',
            'site: RefFiles in an automatically read file', 'site: -c Config/...', 'site: -c S/L', 'site: -c Config/GameDir', 'site: GameDir in an automatically read file',
            'site: GameDir only in a file that is not read automatically',
            'site: HtmlWriterClass in a ref file, overridden by -W', 'site: skoolkit.ini', 'site: -I',
            'cfg: skoolkit.ini in ~/.skoolkit', 'cfg: -I', 'cfg: effective value seen in behaviour of skool2ctl', 'cfg: effective value seen in behaviour of skool2asm'] + ['cfg: ' + t for t in refdrv.TOOLS]


def judge(rep, cases, wd, name):
    """-> ({index: clause}, Counter of drift classes)"""
    fails, drift = {}, Counter()
    batch, size, start, batches = [], 0, 0, []
    for i, c in enumerate(cases):
        s = json.dumps({k: v for k, v in c.items() if k not in DROP}, separators=(',', ':'))
        if batch and size + len(s) > 30_000_000:
            batches.append((start, batch))
            batch, size, start = [], 0, i
        batch.append(s)
        size += len(s)
    if batch:
        batches.append((start, batch))
    aux = os.path.join(wd, 'aux.json')
    with open(aux, 'w') as f:
        json.dump({'defaults': refdrv.encl(refdrv.site_defaults())}, f)
    for start, batch in batches:
        path = os.path.join(wd, 'cases.json')
        with open(path, 'w') as f:
            f.write('[' + ','.join(batch) + ']')
        env = dict(JENV, CASES=path, AUX=aux)
        r = tlc.run(os.path.join(tlc.SPEC, 'ref'), 'RefCases', 'RefCases.cfg', env=env, tag='RefCases', timeout=3000, heap='12g')
        tlc.check_machinery(r, 'RefCases')
        if r.distinct != 2 * len(batch):
            raise MachineryError('RefCases: expected %d states, TLC found %d\n%s' % (2 * len(batch), r.distinct, r.out[-3000:]))
        rep.add_tlc(r, name, traces=len(batch))
        for tid, clause in r.fails:
            fails[start + tid - 1] = clause
        for k, v in r.notes:
            if k == 'DRIFT':
                tid, cls = v.split(',', 1)
                drift[cls.strip().strip('"')] += 1
    return fails, drift


def describe(c):
    if c['k'] == 'parse':
        return 'RefParser on %s' % json.dumps(c['text'])
    m = c['meta']
    if c['k'] == 'site':
        return 'skool2html %s game.skool %s with %s' % (' '.join(m['argv']), ' '.join(m['cmd']), json.dumps(m['files']))
    return '%s with skoolkit.ini %s%s and -I %s' % (m['tool'], json.dumps(m['ini']), ' (in ~/.skoolkit)' if m['home'] else '', m['cli'])


def run(tier):
    rep = Report(PID, tier)
    wd = workdir('e03')
    sd = seed()
    cbuild.repo_only()
    # (A) the specification itself
    cfgs = ['RefFile_mcq.cfg', 'RefFile_mcq2.cfg'] if tier == 'quick' else ['RefFile_mcq.cfg', 'RefFile_mcq2.cfg', 'RefFile_mc.cfg', 'RefFile_mc2.cfg', 'RefFile_mc3.cfg']
    for cfg in cfgs:
        r = tlc.model_check('ref', 'RefFileMC', cfg, timeout=3000, coverage=(cfg == 'RefFile_mcq2.cfg'))
        rep.add_tlc(r, cfg)
        rep.model_violation(r, cfg)
        if cfg == 'RefFile_mcq2.cfg':
            never = [a for a, (d, n) in r.coverage.items() if n == 0 and a in ('SectionHeader', 'Line', 'Comment', 'Blank', 'Continuation', 'EndOfFile')]
            if never:
                raise MachineryError('RefFile %s: actions never taken: %s' % (cfg, never))
        if not r.ok and not r.violated:
            raise MachineryError('RefFile %s did not finish\n%s' % (cfg, r.out[-2000:]))
    # (B) the real code
    n_parse, n_site, n_cfg = (6000, 480, 960) if tier == 'quick' else (60000, 5000, 10000)
    jobs = []
    for kind, n, off in (('parse', n_parse, 0), ('site', n_site, 1), ('cfg', n_cfg, 2)):
        seeds = [(sd * 3 + off) * 10000019 + i for i in range(n)]
        jobs += [(kind, seeds[k::48], wd) for k in range(48) if seeds[k::48]]
    jobs.sort(key=lambda j: j[0] != 'site')          # the slow kind first
    with mp.get_context('fork').Pool(16) as pool:
        parts = pool.map(refdrv.worker, jobs, chunksize=1)
    cases = sorted((c for p in parts for c in p), key=lambda c: c['key'])
    errs = [c for c in cases if c['k'] == 'error']
    if errs:
        raise MachineryError('E03 driver failed on %d cases, e.g. %s\n%s' % (len(errs), errs[0]['key'], errs[0]['err']))
    crashed = [c for c in cases if c['k'] == 'crash']
    rep.extra['sites_where_skool2html_raised'] = len(crashed)
    for c in crashed:
        # every generated site is documented use (existing files, well-formed options): no observation = skool2html failed
        if c['exit'] in (None, 0):
            why, what = 'writer-class-not-used', 'skool2html ran, but not with the HtmlWriter class given with -W'
        else:
            why, what = str(c['exit']).split(':')[0].split(' ')[0][:40], 'skool2html stopped: %s' % str(c['exit'])[:200]
        rep.violation('site:skool2html-failed:%s' % why, '%s: %s [%s]' % (c['key'], what, describe(dict(c, k='site'))[:600]),
                      {'case': c['key'], 'input': c['meta'], 'output': c['err']})
    cases = [c for c in cases if c['k'] not in ('crash',)]
    cases.append(refdrv.reffile_case())
    log('E03: %d cases recorded' % len(cases))
    cnt = Counter()
    for c in cases + [dict(c, k='site') for c in crashed]:
        if c['k'] != 'reffile':
            features(c, cnt)
        rep.count()
    rep.nontrivial_count = sum(len(c.get('q', ())) + len(c.get('fam', ())) + len(c.get('uq', ())) + 3 * len(c.get('cfg', ())) for c in cases)
    rep.extra['classes'] = dict(sorted(cnt.items()))
    empty = [x for x in REQUIRED if not cnt[x]]
    if empty:
        raise MachineryError('E03 vacuity: no generated case has: %s' % empty)
    fails, drift = judge(rep, cases, wd, 'RefCases')
    # standing deviations of skoolkit from the literal reading of the documentation (named operators in the spec) are
    # counted apart from drift proper = an observation that only a choice other than skoolkit's present one explains
    standing = ('drift:show-config-before-ini-options', 'drift:append-replaces-built-in-section', 'drift:config-line-added-twice')
    rep.drift = sum(v for k, v in drift.items() if k not in standing)
    rep.extra['drift_classes'] = {k: v for k, v in drift.items() if k not in standing}
    rep.extra['standing_deviations'] = {k[6:]: v for k, v in drift.items() if k in standing}
    if rep.drift:
        log('E03: drift %s' % rep.extra['drift_classes'])
    for c in cases[:2] + [x for x in cases if x['k'] == 'site'][:1] + [x for x in cases if x['k'] == 'cfg'][:1]:
        rep.sample({'key': c['key'], 'input': describe(c)[:1500]})
    for i, clause in sorted(fails.items()):
        c = cases[i]
        if c['k'] == 'cfg':
            key = 'cfg:%s:%s' % (c['meta']['tool'], clause)
        else:
            key = '%s:%s' % (c['k'], clause)
        rep.violation(key, '%s: %s [%s]' % (c['key'], clause, describe(c)[:600]),
                      {'case': c['key'], 'clause': clause, 'input': c.get('text') or c.get('meta')})
    rep.rule = ('random ref files (section names with colons / + / ++ / blanks, key=value lines, blank lines, comments, ;; and [[ escapes, '
                'look-alikes, trailing blanks, lines before the first header, 1-3 files) through RefParser; random game*.ref + RefFiles + '
                'command line ref files + -c + -W + skoolkit.ini + -I through skool2html.main; random skoolkit.ini + -I through '
                '--show-config of ten commands and the output of skool2ctl / skool2asm; distinct_nontrivial = queries judged')
    rep.assumptions = ['text is projected to lists of code points; dictionaries to sorted lists of <<key, value>> (integer keys as text)',
                       'game*.ref are listed for TLC in skoolkit\'s order (game.ref first, then by name); other orders are drift',
                       'parameters whose default (as shown by --show-config without skoolkit.ini) is a number are the numeric ones',
                       'effective Hex / Base / Case are read off the output of skool2ctl / skool2asm on a three-line skool file']
    rmworkdir('e03')
    return rep.finish()
