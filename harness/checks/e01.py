"""E01 (extension) - the simulator-backed skool macros #SIM, #TSTATES and #AUDIO (sim mode) compute what
skool-macros.rst says, in skool2asm and skool2html alike: spec/simmacro/SimMacro.tla (on top of Z80!Step) evaluated by
TLC on generated programs / macro sessions and compared with what the real tools printed (spec/simmacro/SimCases.tla)."""
import multiprocessing as mp
import os
import time

from ..lib import cbuild, tlc
from ..lib.common import workdir, rmworkdir, seed, log, MachineryError, VERIF
from ..lib.report import Report
from ..drivers import simmacrodrv as drv

PID = 'E01'

# session kinds and their share of the generated files
MIX = [('plain', 7), ('int', 3), ('audio', 2), ('clean', 1), ('128', 2), ('zero', 1)]

REQUIRED = ['sim', 'sim:run:start', 'sim:run:cont', 'sim:set', 'sim:clear', 'sim:halt', 'sim:execint', 'fields', 'peek',
            'ts:static:0', 'ts:static:1', 'ts:static:2', 'ts:static:3', 'ts:static:nostop', 'ts:exec', 'ts:exec:text',
            'ts:exec:nosim', 'ts:exec:execint', 'pokes', 'pushs', 'pops', 'bank', 'audio', 'audio:execint1', 'audio:execint2',
            'kind:plain', 'kind:int', 'kind:audio', 'kind:clean', 'kind:128', 'kind:zero', 'sim:first0', 'impl:c', 'impl:py', 'peek:stored'] + \
           ['frag:' + k for k in drv.KINDS48 + ['halt', 'audio', 'page', 'ay']]


def _init(wd):
    drv.prepare_cwd(os.path.join(wd, 'cwd-%d' % os.getpid()))


def drive(sd, n, wd, stall):
    """-> (cases, hung): hung = sessions still running when no session at all had finished for `stall` seconds (every
    session takes about a second, even on a loaded machine; executed code that never reaches its stop address spins in
    the C simulator forever)"""
    kinds = [k for k, w in MIX for _ in range(w)]
    args = [(sd, i, kinds[i % len(kinds)], wd) for i in range(n)]
    cases, hung = {}, []
    ctx = mp.get_context('fork')
    pool = ctx.Pool(16, initializer=_init, initargs=(wd,), maxtasksperchild=40)
    try:
        pending = {i: (a, pool.apply_async(drv.worker, (a,))) for i, a in enumerate(args)}
        last = time.time()
        while pending:
            ready = [i for i, (a, r) in pending.items() if r.ready()]
            if ready:
                last = time.time()
                for i in ready:
                    a, r = pending.pop(i)
                    c = r.get()
                    if c is not None:
                        cases[i] = c
            elif time.time() - last > stall:
                hung = [a for i, (a, r) in sorted(pending.items())]
                break
            else:
                time.sleep(0.05)
    finally:
        pool.terminate()
        pool.join()
    return [cases[i] for i in sorted(cases)], hung


def run(tier):
    rep = Report(PID, tier)
    wd = workdir('e01')
    sd = seed()
    cbuild.preload()
    # the worked examples of skool-macros.rst evaluated on the specification itself (ASSUMEs of SimDocExamples.tla)
    r0 = tlc.model_check('simmacro', 'SimDocExamples', 'SimDocExamples.cfg', workers=1, coverage=False)
    if not r0.ok:
        raise MachineryError('SimDocExamples: the specification does not reproduce the documented examples\n' + r0.out[-2000:])
    rep.add_tlc(r0, 'SimDocExamples')
    n, budget = (480, 60) if tier == 'quick' else (4800, 120)
    t0 = time.time()
    cases, hung = drive(sd, n, wd, budget)
    log('E01: %d sessions expanded by skool2asm/skool2html in %.1fs (%d not finished)' % (len(cases), time.time() - t0, len(hung)))
    for a in hung:
        rep.violation('e01:hang:%s' % a[2], 'session %d (%s, seed %d): no progress for %ds (executed code never '
                      'reached its stop address?)' % (a[1], a[2], a[0], budget), {'args': list(a[:3])})
    if not cases and not hung:
        raise MachineryError('E01: no case was produced')
    if not cases:
        rep.rule = 'no session finished'
        return rep.finish()
    # probes of the open findings run once their keys are registered (or on request)
    want = [name for name, *_ in drv.PROBES
            if os.environ.get('VERIF_E01_PROBES', '1') == '1' or any(k.startswith('e01:probe:' + name) for k in rep.known)]
    if want:
        drv.prepare_cwd(os.path.join(wd, 'cwd-probe'))
        cases += drv.probe_cases(wd, want)
        os.chdir(VERIF)

    steps = 0
    drift = {}
    for b in range(0, len(cases), 4000):
        part = cases[b:b + 4000]
        slim = [drv.slim(c) for c in part]
        r, fails = tlc.judge('simmacro', 'SimCases', 'SimCases.cfg', slim, casefile=os.path.join(wd, 'cases.json'),
                             env={'JAVA_TOOL_OPTIONS': '-Xss64m'})
        rep.add_tlc(r, 'SimCases', traces=len(part))
        for name, rest in r.notes:
            if name == 'STEPS':
                steps += int(rest.split(',')[1])
            elif name == 'DRIFT':
                tid, clause = rest.split(',', 1)
                c = part[int(tid) - 1]
                k, op, what, mode = clause.strip().strip('"').split(':')
                key = '%s:%s' % (op, what)
                drift[key] = drift.get(key, 0) + 1
        for i, clause in fails:
            c = part[i]
            k, op, what, mode = clause.split(':')
            k = int(k)
            if what == 'undefined':
                raise MachineryError('generated session outside the specified domain (%s): %s %s' % (clause, c['key'], c['text']))
            if c['kind'] == 'probe' and op != 'tool':
                o = c['ops'][k - 1]
                key = 'e01:%s' % c['key']
                desc = ('%s op %d %s: clause %s:%s differs in %s mode; asm=%s html=%s; program %s; session %s'
                        % (c['key'], k, drv_text(c, k - 1), op, what, mode, o['asm'], o['html'],
                           ' / '.join('%d %s' % (a, t) for a, t, b in c['prog']['ins']), c['text']))
            elif op == 'tool':
                key = 'e01:%s:tool:exception' % c['kind']
                desc = '%s: %s' % (c['key'], c['exc'])
            else:
                o = c['ops'][k - 1]
                key = 'e01:%s:%s:%s' % (mode, op, what)
                desc = ('%s (%s/%s, seed %d) op %d %s: clause %s:%s differs in %s mode; asm=%s html=%s; session %s'
                        % (c['key'], c['kind'], c.get('impl', 'c'), sd, k, drv_text(c, k - 1), op, what, mode, o['asm'], o['html'], c['text']))
            rep.violation(key, desc, replay_of(c))

    seen = {}
    for c in cases:
        if c['kind'] == 'probe':
            continue
        for t in c['classes'] + ['kind:' + c['kind']]:
            seen[t] = seen.get(t, 0) + 1
        rep.count((c['kind'], tuple(sorted(t for t in c['classes'] if not t.startswith('sim:span')))))
    lack = [t for t in REQUIRED if seen.get(t, 0) < 3]
    if lack and not hung:
        raise MachineryError('vacuous E01 run: classes (almost) never generated: %s' % lack)
    rep.evaluations = sum(len(c['ops']) * (c['asm'] + c['html']) for c in cases)
    rep.drift = sum(drift.values())
    rep.extra['drift_classes'] = drift
    rep.extra['class_counts'] = dict(sorted(seen.items()))
    rep.extra['instructions_executed_by_spec'] = steps
    rep.extra['sessions'] = len(cases)
    for c in cases[:3]:
        rep.sample({'kind': c['kind'], 'session': c['text'], 'program': ['%d %s' % (a, t) for a, t, b in c['prog']['ins']][:40],
                    'asm': [o['asm'] for o in c['ops']], 'html': [o['html'] for o in c['ops']]})
    rep.rule = ('one generated program + one macro session per skool file (kinds: plain, EI/HALT next to a frame boundary, '
                'beeper loops with #AUDIO, cmio=1 in uncontended memory, 128K with paging/AY/#BANK); every macro of the session is '
                'expanded by skool2asm.main and skool2html.main; TLC evaluates SimMacro.tla (Run = iterated Z80!StepInt) on the same '
                'program and ops and compares every expansion; distinct_nontrivial = distinct (kind, set of op/fragment classes)')
    rep.assumptions = [
        'the snapshot background is Z80Bits!Base everywhere (written by @defb directives / @bank side files), so that reads of any '
        'address are defined; code is assembled by the tools themselves from the instruction text (@assemble=2 default)',
        'generated programs store only through pointers loaded in the same fragment and run between fragment boundaries (termination '
        'by construction); SCF/CCF/BIT n,(HL) (undocumented flag bits) are not generated; 128K programs never page RAM 2/5 or ROM 1',
        'MEMPTR is not modelled by Z80.tla: sim[MEMPTR] after executed code is compared as drift only; cmio=1 sessions run in '
        'uncontended memory without I/O, where contended and plain timings coincide',
        '#AUDIO delays are observed through the documented AudioWriter component API (a recording component declared in '
        'skoolkit.ini); #AUDIO sessions are expanded by skool2html only (the macro is not supported in ASM mode)',
        'html.unescape is trusted to undo HTML escaping; integers are parsed from the text between ~k~ markers',
    ]
    rmworkdir('e01')
    return rep.finish()


def drv_text(c, k):
    import re
    parts = re.split(r'~\d+~', c['text'][3:-3])
    return parts[k] if k < len(parts) else '?'


def replay_of(c):
    return {'key': c['key'], 'kind': c['kind'], 'impl': c.get('impl', 'c'), 'session': c['text'],
            'program': ['%d %s' % (a, t) for a, t, b in c['prog']['ins']],
            'observed': [{'op': drv_text(c, k), 'asm': o['asm'], 'html': o['html']} for k, o in enumerate(c['ops'])],
            'exc': c['exc'], 'case': c}


def replay(path):
    """./check E01 --replay replays/E01-n.json : write that skool file again, rerun the tools, judge again"""
    import json
    with open(path) as f:
        d = json.load(f)
    rp = d.get('replay') or {}
    print('replay of %s: key %s' % (path, d.get('key')))
    if 'case' not in rp:
        print('  (no session recorded: rerun ./check E01)')
        return 0
    wd = workdir('e01-replay')
    cbuild.preload()
    drv.prepare_cwd(os.path.join(wd, 'cwd'))
    c = drv.observe(rp['case'], wd, 'replay')
    os.chdir(VERIF)
    r, fails = tlc.judge('simmacro', 'SimCases', 'SimCases.cfg', [drv.slim(c)], casefile=os.path.join(wd, 'cases.json'),
                         env={'JAVA_TOOL_OPTIONS': '-Xss64m'})
    for k, o in enumerate(c['ops']):
        print('  %2d %-60s asm=%s html=%s' % (k + 1, drv_text(c, k)[:60], o['asm'], o['html']))
    for i, clause in fails:
        print('  FAIL ' + clause + (' ' + c['exc'] if c['exc'] else ''))
    rmworkdir('e01-replay')
    print('VIOLATION reproduced' if fails else 'no violation on replay')
    return 1 if fails else 0
