"""C06 - all four simulator implementations execute every program identically (DESIGN §4 C06)."""
import json
import multiprocessing as mp
import os

from ..lib import cbuild, tlc
from ..lib.common import workdir, rmworkdir, seed, log, MachineryError
from ..lib.report import Report
from ..drivers import progdrv

PID = 'C06'


def judge_runs(rep, traces, wd, name='MachineTrace'):
    bad = []
    step = 4000
    for b in range(0, len(traces), step):
        part = traces[b:b + step]
        slim = [{k: t[k] for k in ('pair', 'ints', 'frame', 'ia', 'inv', 'sem', 'tsem', 'r0', 'ov0', 'obs')} for t in part]
        path = os.path.join(wd, 'mtraces.json')
        with open(path, 'w') as f:
            json.dump(slim, f, separators=(',', ':'))
        r = tlc.run(os.path.join(tlc.SPEC, 'z80'), 'MachineTrace', 'MachineTrace.cfg', env={'CASES': path},
                    tag='MachineTrace', timeout=3000, heap='16g')
        tlc.check_machinery(r, 'MachineTrace')
        rep.add_tlc(r, name, traces=len(part))
        failed = {}
        for code, clause in r.fails:
            failed[code // 1000 - 1] = (code % 1000, clause)
        expect = sum((failed[i][0] if i in failed else len(t['obs'])) + 1 for i, t in enumerate(part))
        if r.distinct != expect:
            raise MachineryError('MachineTrace: expected %d states, TLC found %d\n%s' % (expect, r.distinct, r.out[-3000:]))
        for i, (l, clause) in failed.items():
            bad.append((part[i], l, clause))
    return bad


def run(tier):
    rep = Report(PID, tier)
    wd = workdir('c06')
    sd = seed()
    cbuild.build()
    nprogs, steps = (30, 120) if tier == 'quick' else (420, 400)
    args = [(sd * 977 + k, nprogs, steps) for k in range(16)]
    with mp.get_context('fork').Pool(16) as pool:
        parts = pool.map(progdrv.lockstep, args)
    traces = [t for p in parts for t in p]
    nsteps = sum(len(t['obs']) for t in traces)
    log('C06: %d lock-step runs, %d instruction boundaries' % (len(traces), nsteps))
    bad = judge_runs(rep, traces, wd)
    rep.evaluations = nsteps * 2
    ints = halts = 0
    for t in traces:
        for i, o in enumerate(t['obs']):
            pre = t['r0'] if i == 0 else t['obs'][i - 1]['r']
            if pre[26] == 1 and o['r'][26] == 0 and o['r'][12] == (pre[12] - 2) % 65536:
                ints += 1
            halts += o['r'][28]
            rep.nontrivial.add((t['pair'], t['ov0'] and 0, o['r'][24], o['r'][25] - pre[25]))
    rep.extra['interrupts_accepted_in_traces'] = ints
    rep.extra['halted_boundaries'] = halts
    if ints < 10 or halts < 10:
        raise MachineryError('vacuous C06 run: %d interrupts, %d halted boundaries' % (ints, halts))
    rep.sample({k: traces[0][k] for k in ('pair', 'kind', 'ints', 'r0')})
    rep.sample({'first_obs': traces[0]['obs'][0]})
    for t, l, clause in bad:
        o = t['obs'][l - 1]
        pre = t['r0'] if l == 1 else t['obs'][l - 2]['r']
        rep.violation('run:%s:%s' % (t['pair'], clause),
                      '%s program (%s), step %d from PC=%d T=%d: %s; observed r=%s partner r=%s'
                      % (t['pair'], t['kind'], l, pre[24], pre[25], clause, o['r'], o['r2']), t)
    for t in traces:
        if not t['loop_ok']:
            rep.violation('loop:%s' % t['pair'],
                          '%s: %d instructions executed by ONE call of the trace loop end in a different state than the same '
                          'instructions executed one call at a time (start T=%d): %s' % (t['pair'], len(t['obs']), t['r0'][25], t['whole']), t)
    rep.rule = ('generated programs (byte soup, prefix-heavy, structured EI/HALT/IM2/loops/block ops/self-modifying, code '
                'straddling 0xFFFF) run one instruction at a time through trace.py\'s loop on py+c and pycm+ccm; every boundary '
                'judged by TLC as Z80!StepInt and for bit-identical pair state; distinct_nontrivial = distinct (pair, PC, dT)')
    rmworkdir('c06')
    return rep.finish()
