"""C06 - all four simulator implementations execute every program identically (DESIGN §4 C06)."""
import json
import multiprocessing as mp
import os

from ..lib import cbuild, tlc
from ..lib.common import workdir, rmworkdir, seed, log, MachineryError
from ..lib.report import Report
from ..drivers import progdrv, replaylib

PID = 'C06'


def judge_runs(rep, traces, wd, name='MachineTrace'):
    bad = []
    step = 4000
    for b in range(0, len(traces), step):
        part = traces[b:b + step]
        slim = [{k: t[k] for k in ('pair', 'ints', 'frame', 'ia', 'inv', 'sem', 'tsem', 'r0', 'ov0', 'obs', 'c08') if k in t} for t in part]
        path = os.path.join(wd, 'mtraces.json')
        with open(path, 'w') as f:
            json.dump(slim, f, separators=(',', ':'))
        r = tlc.run(os.path.join(tlc.SPEC, 'z80'), 'MachineTrace', 'MachineTrace.cfg', env={'CASES': path},
                    tag='MachineTrace', timeout=7200, heap='16g')
        tlc.check_machinery(r, 'MachineTrace')
        rep.add_tlc(r, name, traces=len(part))
        failed = {}
        for code, clause in r.fails:
            failed[code // 1000 - 1] = (code % 1000, clause)
        expect = sum((failed[i][0] if i in failed else len(t['obs'])) + 1 for i, t in enumerate(part))
        if r.distinct != expect:
            raise MachineryError('MachineTrace: expected %d states, TLC found %d\n%s' % (expect, r.distinct, r.out[-3000:]))
        for i, (l, clause) in failed.items():
            bad.append((part[i], l, clause))
    return bad


def judge_runs128(rep, traces, wd):
    """128K lock-step runs judged by Machine128.tla (Z80!Step composed with the 0x7FFD latch over physical pages)."""
    bad = []
    step = 1500
    keys = ('pair', 'ints', 'frame', 'ia', 'inv', 'sem', 'tsem', 'r0', 'pov0', 'o70')
    okeys = ('r', 'pw', 'io', 'exc', 'r2', 'same2', 'o7', 'tr', 'vis3', 'vis0')
    for b in range(0, len(traces), step):
        part = traces[b:b + step]
        slim = [dict({k: t[k] for k in keys}, obs=[{k: o[k] for k in okeys} for o in t['obs']]) for t in part]
        path = os.path.join(wd, 'm128traces.json')
        with open(path, 'w') as f:
            json.dump(slim, f, separators=(',', ':'))
        r = tlc.run(os.path.join(tlc.SPEC, 'z80'), 'Machine128', 'Machine128.cfg', env={'CASES': path},
                    tag='Machine128', timeout=7200, heap='16g')
        tlc.check_machinery(r, 'Machine128')
        rep.add_tlc(r, 'Machine128', traces=len(part))
        failed = {}
        for code, clause in r.fails:
            failed[code // 1000 - 1] = (code % 1000, clause)
        expect = sum((failed[i][0] if i in failed else len(t['obs'])) + 1 for i, t in enumerate(part))
        if r.distinct != expect:
            raise MachineryError('Machine128: expected %d states, TLC found %d\n%s' % (expect, r.distinct, r.out[-3000:]))
        for i, (l, clause) in failed.items():
            if clause.startswith('machinery'):
                raise MachineryError('Machine128: %s in trace %d step %d' % (clause, i, l))
            bad.append((part[i], l, clause))
    return bad


def judge_fast(rep, cases, wd):
    """run(start, stop) observations of every implementation/configuration judged by FastRun.tla (Step iterated to `stop`)."""
    bad, skipped = [], []
    keys = ('r0', 'ov0', 'stop', 'max', 'frame', 'ia', 'inv', 'ints')
    slim = [dict({k: c[k] for k in keys}, obs=[{k: o[k] for k in ('impl', 'r', 'wr', 'exc')} for o in c['obs']]) for c in cases]
    path = os.path.join(wd, 'fast.json')
    with open(path, 'w') as f:
        json.dump(slim, f, separators=(',', ':'))
    r = tlc.run(os.path.join(tlc.SPEC, 'z80'), 'FastRun', 'FastRun.cfg', env={'CASES': path}, tag='FastRun', timeout=3600, heap='16g')
    tlc.check_machinery(r, 'FastRun')
    rep.add_tlc(r, 'FastRun', traces=len(cases))
    lens = {}
    for name, rest in r.notes:
        if name == 'LEN':
            tid, n, acc = [int(x) for x in rest.replace('>>', '').split(',')[:3]]
            lens[tid - 1] = n
            cases[tid - 1]['accepted'] = acc
    if len(lens) != len(cases):
        raise MachineryError('FastRun: %d of %d runs finished\n%s' % (len(lens), len(cases), r.out[-2000:]))
    for i, c in enumerate(cases):
        if c['steps'] >= 0 and lens[i] != c['steps']:
            raise MachineryError('FastRun: case %d takes %d steps in the specification, %d when stepped on the plain simulator' % (i, lens[i], c['steps']))
        c['steps'] = lens[i]
    expect = sum(n + 1 for n in lens.values())
    if r.distinct != expect:
        raise MachineryError('FastRun: expected %d states, TLC found %d\n%s' % (expect, r.distinct, r.out[-3000:]))
    for i, clause in [(code - 1, clause) for code, clause in r.fails]:
        if clause.startswith('machinery'):
            raise MachineryError('FastRun: %s in case %d' % (clause, i))
        if clause.startswith('skip'):
            skipped.append(i)
            continue
        bad.append((cases[i], clause))
    rep.extra['fast_run_not_judged_open_flag_bits'] = len(skipped)
    if len(skipped) * 10 > len(cases) and len(cases) > 20:
        raise MachineryError('FastRun: %d of %d cases not judged' % (len(skipped), len(cases)))
    return bad


def fast_section(rep, tier, sd, wd):
    n = 36 if tier == "quick" else 400
    marks = [os.path.join(wd, 'fast-running-%d' % k) for k in range(16)]
    with mp.get_context('fork').Pool(16) as pool:
        job = pool.map_async(progdrv.fast_cases, [(sd * 613 + 11 + k, n, marks[k]) for k in range(16)])
        try:
            parts = job.get(timeout=900)
        except mp.TimeoutError:
            pool.terminate()
            for m in marks:
                if os.path.exists(m):
                    rep.violation('fast:run-never-returned', 'run(start, stop) did not return for (impl, kind, regs, ov, stop) = %s' % open(m).read()[:2000])
            return
    cases = [c for p in parts for c in p]
    own = sum(c['own'] for c in cases)
    djnz = sum(1 for c in cases if c['kind'] != 'ldir' and not c['r0'][26])
    rep.extra['fast_run_cases'] = len(cases)
    rep.extra['fast_run_copy_reaches_own_bytes'] = own
    if own < 40 or djnz < 40 or len(cases) < 8 * n:
        raise MachineryError('vacuous C06 fast-run section: %d cases, %d copies over the own instruction, %d DJNZ' % (len(cases), own, djnz))
    log('C06: %d run(start, stop) programs (%d copies reaching the instruction itself)' % (len(cases), own))
    bad = judge_fast(rep, cases, wd)
    rep.extra['fast_run_instructions'] = sum(c['steps'] for c in cases)
    rep.extra['fast_run_with_interrupts'] = sum(c['ints'] for c in cases)
    rep.extra['fast_run_interrupts_accepted'] = sum(c.get('accepted', 0) for c in cases)
    if rep.extra['fast_run_interrupts_accepted'] < 20:
        raise MachineryError('vacuous C06 fast-run section: %d interrupts accepted' % rep.extra['fast_run_interrupts_accepted'])
    for c, clause in bad:
        rep.violation('fast:%s:%s' % (c['kind'], clause),
                      'run(%d, %d, interrupts=%d) of a %s program (%d instructions when stepped, loop instruction at %d, IFF=%d): %s; final registers %s'
                      % (c['r0'][24], c['stop'], c['ints'], c['kind'], c['steps'], c['at'], c['r0'][26], clause,
                         {o['impl']: o['r'] for o in c['obs']}), dict(c, kind='fast-' + c['kind']))
    rep.evaluations += len(cases) * 3
    for c in cases:
        rep.nontrivial.add(('fast', c['kind'], c['own'], c['steps'], c['r0'][26]))


def run(tier):
    rep = Report(PID, tier)
    wd = workdir('c06')
    sd = seed()
    cbuild.build()
    nprogs, steps = (22, 100) if tier == 'quick' else (60, 250)
    args = [(sd * 977 + k, nprogs, steps) for k in range(16)]
    n128, steps128 = (8, 80) if tier == 'quick' else (24, 200)
    args128 = [(sd * 1201 + 5 + k, n128, steps128) for k in range(16)]
    with mp.get_context('fork').Pool(16) as pool:
        parts128 = pool.map_async(progdrv.lockstep128, args128)
        parts = pool.map(progdrv.lockstep, args)
        parts128 = parts128.get()
    traces = [t for p in parts for t in p]
    traces128 = [t for p in parts128 for t in p]
    nsteps = sum(len(t['obs']) for t in traces)
    log('C06: %d lock-step runs, %d instruction boundaries' % (len(traces), nsteps))
    bad = judge_runs(rep, traces, wd)
    nsteps128 = sum(len(t['obs']) for t in traces128)
    log('C06: %d 128K lock-step runs, %d instruction boundaries' % (len(traces128), nsteps128))
    bad128 = judge_runs128(rep, traces128, wd)
    pagings = sum(1 for t in traces128 for i, o in enumerate(t['obs']) if o['o7'] != (t['o70'] if i == 0 else t['obs'][i - 1]['o7']))
    locked_outs = sum(1 for t in traces128 for i, o in enumerate(t['obs'])
                      if (t['o70'] if i == 0 else t['obs'][i - 1]['o7']) & 32 and any(e[0] == 'o' and e[1] & 0x8002 == 0 for e in o['io']))
    big = sum(1 for t in traces + traces128 if t.get('tbase', '0') != '0')
    rep.extra['runs_with_clock_around_or_beyond_2^32'] = big
    if big < 40:
        raise MachineryError('vacuous C06 run: %d runs with a large T-state counter' % big)
    rep.extra['paging_changes_in_128k_traces'] = pagings
    rep.extra['writes_to_7ffd_while_locked'] = locked_outs
    rep.extra['boundaries_128k'] = nsteps128
    if pagings < 20 or locked_outs < 1:
        raise MachineryError('vacuous C06 128K run: %d paging changes, %d locked writes' % (pagings, locked_outs))
    for t, l, clause in bad128:
        o = t['obs'][l - 1]
        pre = t['r0'] if l == 1 else t['obs'][l - 2]['r']
        rep.violation('run128:%s:%s' % (t['pair'], clause),
                      '%s 128K program (%s), step %d from PC=%d T=%d latch=%d: %s; observed r=%s partner r=%s o7=%s vis3=%s'
                      % (t['pair'], t['kind'], l, pre[24], pre[25], t['o70'] if l == 1 else t['obs'][l - 2]['o7'], clause, o['r'],
                         o['r2'], o['o7'], o['vis3']), t)
    for t in traces128:
        if not t['loop_ok']:
            rep.violation('loop128:%s' % t['pair'],
                          '%s (128K): %d instructions executed by ONE call of the trace loop end in a different state than one call '
                          'at a time: %s' % (t['pair'], len(t['obs']), t['whole']), t)
    rep.evaluations = (nsteps + nsteps128) * 2
    fast_section(rep, tier, sd, wd)
    ints = halts = 0
    for t in traces:
        for i, o in enumerate(t['obs']):
            pre = t['r0'] if i == 0 else t['obs'][i - 1]['r']
            if pre[26] == 1 and o['r'][26] == 0 and o['r'][12] == (pre[12] - 2) % 65536:
                ints += 1
            halts += o['r'][28]
            rep.nontrivial.add((t['pair'], t['ov0'] and 0, o['r'][24], o['r'][25] - pre[25]))
    rep.extra['interrupts_accepted_in_traces'] = ints
    rep.extra['halted_boundaries'] = halts
    if ints < 10 or halts < 10:
        raise MachineryError('vacuous C06 run: %d interrupts, %d halted boundaries' % (ints, halts))
    rep.sample({k: traces[0][k] for k in ('pair', 'kind', 'ints', 'r0')})
    rep.sample({'first_obs': traces[0]['obs'][0]})
    for t, l, clause in bad:
        o = t['obs'][l - 1]
        pre = t['r0'] if l == 1 else t['obs'][l - 2]['r']
        rep.violation('run:%s:%s' % (t['pair'], clause),
                      '%s program (%s), step %d from PC=%d T=%d: %s; observed r=%s partner r=%s'
                      % (t['pair'], t['kind'], l, pre[24], pre[25], clause, o['r'], o['r2']), t)
    for t in traces:
        if not t['loop_ok']:
            rep.violation('loop:%s' % t['pair'],
                          '%s: %d instructions executed by ONE call of the trace loop end in a different state than the same '
                          'instructions executed one call at a time (start T=%d): %s' % (t['pair'], len(t['obs']), t['r0'][25], t['whole']), t)
    rep.rule = ('generated programs (byte soup, prefix-heavy, structured EI/HALT/IM2/loops/block ops/self-modifying, code '
                'straddling 0xFFFF; a quarter with the T-state counter crossing or beyond 2^32) run one instruction at a time through trace.py\'s loop on py+c and pycm+ccm; every boundary '
                'judged by TLC as Z80!StepInt and for bit-identical pair state; 128K programs (0x7FFD paging incl. ROM/lock bits, '
                'decoded and undecoded ports, OUTI, stores/stack/calls into the paged bank, interrupts right after paging) judged '
                'by Machine128 (Step + latch + physical pages); runs that page bank 2/5 in at 0xC000 are judged for pair '
                'agreement, latch, ranges and ROM immutability only; LDIR/LDDR/DJNZ programs (copies starting on, next to or arriving at the '
                'instruction itself, replacing it by another instruction; DJNZ $ and near misses; IFF 0/1) run as ONE run(start, stop) '
                'call on Simulator with fast_djnz/fast_ldir, plain Simulator and CSimulator, judged by FastRun (Step iterated to stop); '
                'distinct_nontrivial = distinct (pair, PC, dT) + distinct (kind, own-bytes, length, IFF)')
    rmworkdir('c06')
    return rep.finish()


def rerun(rp, path):
    """The program of a recorded trace (start registers, memory overlay, port value, interrupts, machine) run again in lock-step
    on the recorded implementation pair of the current tree -> (fresh trace record, is it a 128K one)."""
    replaylib.need(rp, path, 'pair', 'r0', 'inv', 'ints', 'obs')
    pair = tuple(rp['pair'].split('+'))
    if pair not in progdrv.PAIRS:
        raise MachineryError('unusable replay file %s: unknown implementation pair %r' % (path, rp['pair']))
    cbuild.preload()
    steps = rp.get('steps', len(rp['obs']))          # older files: as many boundaries as were recorded
    if 'pov0' in rp:
        replaylib.need(rp, path, 'o70')
        return progdrv.run_pair128(pair, rp.get('kind') == '128k-alias' or not rp.get('sem', 1), rp['r0'], rp['pov0'], rp['o70'], rp['inv'],
                                   bool(rp['ints']), steps, int(rp.get('tbase', 0))), True
    replaylib.need(rp, path, 'ov0')
    if rp.get('kind') == 'int-push':
        return progdrv.int_push(pair, rp['r0'], rp['ov0'], rp['inv'], rp.get('slot', '?')), False
    return progdrv.run_pair(pair, rp.get('kind', '?'), rp['r0'], rp['ov0'], rp['inv'], bool(rp['ints']), steps, int(rp.get('tbase', 0))), False


def replay(path):
    """./check C06 --replay replays/C06-n.json : run the recorded program again on the recorded pair, judge every boundary
    again by MachineTrace / Machine128 and compare the one-call run with the stepped one again."""
    d, rp = replaylib.load(path, PID)
    wd = workdir('replay-c06')
    if str(rp.get('kind', '')).startswith('fast-'):
        replaylib.need(rp, path, 'r0', 'ov0', 'stop')
        cbuild.preload()
        c = progdrv.fast_case(rp['kind'][5:], rp['r0'], rp['ov0'], rp['stop'], rp.get('at', -1), rp.get('ints', 0))
        if c is None:
            raise MachineryError('unusable replay file %s: the program does not reach its stop address when stepped' % path)
        found = ['fast:%s:%s: run(%d, %d) final registers %s' % (c['kind'], clause, c['r0'][24], c['stop'], {o['impl']: o['r'] for o in c['obs']})
                 for c, clause in judge_fast(Report(PID, 'replay'), [c], wd)]
        rmworkdir('replay-c06')
        return replaylib.verdict(PID, path, found)
    t, m128 = rerun(rp, path)
    rep = Report(PID, 'replay')          # only collects TLC statistics; never finished (no evidence written)
    bad = judge_runs128(rep, [t], wd) if m128 else judge_runs(rep, [t], wd)
    sfx = '128' if m128 else ''
    found = []
    for _, l, clause in bad:
        pre = t['r0'] if l == 1 else t['obs'][l - 2]['r']
        found.append('run%s:%s:%s: step %d from PC=%d T=%d; observed r=%s partner r=%s'
                     % (sfx, t['pair'], clause, l, pre[24], pre[25], t['obs'][l - 1]['r'], t['obs'][l - 1]['r2']))
    if not t['loop_ok']:
        found.append('loop%s:%s: %d instructions by ONE call of the trace loop end in a different state: %s' % (sfx, t['pair'], len(t['obs']), t['whole']))
    rmworkdir('replay-c06')
    return replaylib.verdict(PID, path, found)
