"""C01 - sna2skool output reassembles to the original bytes (DESIGN §4 C01)."""
import multiprocessing as mp
import os
import random

from ..lib import cbuild, tlc
from ..lib.common import workdir, rmworkdir, seed, log, MachineryError, WORK
from ..lib.report import Report
from ..drivers import ctlgen, pipedrv, replaylib

PID = 'C01'
KINDS = ('random', 'prefix', 'text', 'zeros', 'code', 'code', 'chars')
# the chars images take the four -H/-l combinations in turn
HL = ([], ['-H'], ['-l'], ['-H', '-l'])


def worker(args):
    sd, n, wd = args
    cbuild.repo_only()
    rnd = random.Random(sd)
    sub = os.path.join(wd, 'w%d' % sd)
    os.makedirs(sub, exist_ok=True)
    out = []
    for k in range(n):
        kind = KINDS[k % len(KINDS)]
        size = rnd.choice((12, 24, 40, 64, 100, 160))
        top = rnd.random() < 0.25             # image placed against 65535
        org = 65536 - size if top else rnd.choice((0x4000, 0x8000, 0xC000, 40000, 0x7FF0, 65536 - size - rnd.randrange(1, 50)))
        chars = kind == 'chars'
        nch = k // len(KINDS)
        mem = ctlgen.gen_char_image(rnd, size, sd * 31 + nch * 3) if chars else ctlgen.gen_image(rnd, size, kind)
        start = org + rnd.choice((0, 0, rnd.randrange(0, size // 3)))
        end = org + size - rnd.choice((0, 0, rnd.randrange(0, size // 3)))
        wrap = top and rnd.random() < 0.5
        full = [0] * 65536
        full[org:org + size] = mem
        ign = []
        opts = pipedrv.gen_options(rnd)
        if chars:
            opts = HL[nch % 4] + [o for o in opts if o not in ('-H', '-l')]
        if '-r' in opts:
            # RST 8 with its inline argument, a few anywhere and often as the last thing before the end of the image / of memory
            # (argument = the last byte; RST as the last byte: no argument left)
            for _ in range(rnd.choice((0, 1, 2))):
                mem[rnd.randrange(size)] = 0xCF
            if rnd.random() < 0.6:
                mem[size - rnd.choice((2, 2, 1, 3))] = 0xCF
            full[org:org + size] = mem
        if wrap and rnd.random() < 0.6:
            # an instruction that starts in the last bytes of memory and runs on at address 0 (Wrap=1; zeros there, as the
            # input is a binary file), often one that has a second encoding (ED63/ED6B nn): its @bytes must survive the wrap
            tail = rnd.choice(([0xED, 0x63], [0xED, 0x6B], [0xED], [0xDD, 0xCB, 5], [0xFD, 0xCB], [0xDD, 0xCB], [0xDD],
                               [0x21, 0x34], [0xC3], [0xDD, 0x36, 1], [0xED, 0x4C][:1], [0xFD]))
            mem[size - len(tail):size] = tail
            full[org:org + size] = mem
            if rnd.random() < 0.7:
                opts += ['-I', 'Opcodes=ALL']
        if chars:
            lines = ctlgen.gen_char_doc(rnd, full, start, end, rst='-r' in opts, wrap_ok=wrap)
        else:
            lines = ctlgen.gen_doc(rnd, full, start, end, ignored=ign if k % 3 == 0 else None, loops=(k % 3 == 1), rst='-r' in opts, wrap_ok=wrap)
        if end >= 65536:
            lines = [l for l in lines if not l.startswith('i 65536')]
        c = pipedrv.pipeline(sub, k, mem, org, start, end, lines, opts, wrap)
        c['mem'] = full[start:end]
        c['ignored'] = ign
        c['kind'] = kind
        # what --replay needs to rebuild the input without the scratch files: the image as loaded, and the options without paths
        c['image'], c['org'], c['user_opts'], c['wrap'] = mem, org, opts, int(wrap)
        # with Wrap=1 an instruction starting before 65536 may run past it: those bytes are outside [start,end)
        out.append(c)
    return out


def judge(rep, cases, wd, name='TilingCases'):
    slim = [{k: c[k] for k in ('start', 'end', 'mem', 'ignored', 'binstart', 'bin', 'stmts', 'err')} for c in cases]
    r, fails = tlc.judge('asm', 'TilingCases', 'TilingCases.cfg', slim, casefile=os.path.join(wd, 'tiling.json'))
    rep.add_tlc(r, name, traces=len(cases))
    return fails


def run(tier):
    rep = Report(PID, tier)
    wd = workdir('c01')
    sd = seed()
    r = tlc.model_check('asm', 'Tiling', 'Tiling_mc.cfg')
    rep.add_tlc(r, 'Tiling_mc')
    rep.model_violation(r, 'Tiling_mc')
    per = 400 if tier == 'quick' else 2500
    with mp.get_context('fork').Pool(16) as pool:
        parts = pool.map(worker, [(sd * 16 + k, per, wd) for k in range(16)])
    cases = [c for p in parts for c in p]
    log('C01: %d pipeline runs' % len(cases))
    # vacuity: every awkward character was written as a character operand in each position (index displacement, second
    # operand, only operand) of some disassembly of a chars image
    missing = []
    chars_sk = [c['skool'] for c in cases if c['kind'] == 'chars']
    for v in ctlgen.AWKWARD + (97, 65):
        lit = '"%s"' % {92: '\\\\', 34: '\\"'}.get(v, chr(v))
        for pos, pat in (('index', '+%s)'), ('second', ',%s'), ('first', ' %s'), ('address', '(%s)')):
            if not any(pat % lit in s or pat % lit.lower() in s for s in chars_sk):
                missing.append('%d:%s' % (v, pos))
    if missing:
        raise MachineryError('C01: character operands never generated: %s' % ' '.join(missing))
    fails = judge(rep, cases, wd)
    for c in cases:
        rep.count((c['kind'], tuple(c['ctl']), tuple(c['opts'][6:])))
    rep.sample({k: cases[0][k] for k in ('start', 'end', 'ctl', 'opts')})
    rep.sample({'skool_head': cases[0]['skool'][:400]})
    for i, clause in fails:
        c = cases[i]
        rep.violation('pipe:%s:%s' % (c['kind'], clause),
                      'range %d-%d opts %s: %s; %s\nctl:\n%s' % (c['start'], c['end'], ' '.join(c['opts'][6:]), clause, c['err'] or c['stderr'][:200],
                                                              '\n'.join(c['ctl'][:30])), c)
    rep.rule = ('image class x range x generated control file (b/c/g/s/t/u/w blocks, B/C/S/T/W sub-blocks, sublength lists with '
                'base prefixes, * multipliers, string/byte mixes, L loops with and without the block flag, mid-range i blocks) x options (-H -l -w, DefbSize/DefmSize/DefwSize, '
                'Opcodes, Timings, Text, InstructionWidth, Semicolons, Wrap); every 7th image is code whose operands (index displacement, immediate after it, '
                'plain immediate, port, 16-bit value) are printable characters incl. \\ " space ; : , ( ) + - and letters, under C sub-blocks with bases c/cc/cn/nc/ch/hc/cd/dc/cb/bc, '
                'with -H/-l in all four combinations; distinct_nontrivial = distinct (image class, ctl, options)')
    rmworkdir('c01')
    return rep.finish()


def replay(path):
    """./check C01 --replay replays/C01-n.json : write the recorded image and control file again, rerun sna2skool and
    skool2bin of the current tree on them with the recorded options, judge again."""
    d, rp = replaylib.load(path, PID)
    replaylib.need(rp, path, 'start', 'end', 'ctl')
    start, end, ctl = rp['start'], rp['end'], rp['ctl']
    if 'image' in rp:
        image, org, opts, wrap = rp['image'], rp['org'], rp['user_opts'], rp['wrap']
    else:
        # replay file written before the image was recorded: the bytes of [start,end) are known, those between ORG and
        # START are not (zeros); the options are what follows '-c <deleted file>' on the recorded command line
        replaylib.need(rp, path, 'opts', 'mem')
        o = rp['opts']
        org = int(o[o.index('-o') + 1])
        image = [0] * (start - org) + rp['mem']
        opts = o[o.index('-c') + 2:]
        wrap = 0          # 'Wrap=1' is still at the end of opts
    wd = workdir('replay-c01')
    cbuild.repo_only()
    c = pipedrv.pipeline(wd, 0, image, org, start, end, ctl, opts, wrap)
    full = [0] * 65536
    full[org:org + len(image)] = image
    c['mem'] = full[start:end]
    c['ignored'] = rp.get('ignored', [])
    slim = [{k: c[k] for k in ('start', 'end', 'mem', 'ignored', 'binstart', 'bin', 'stmts', 'err')}]
    r, fails = tlc.judge('asm', 'TilingCases', 'TilingCases.cfg', slim, casefile=os.path.join(wd, 'tiling.json'))
    rmworkdir('replay-c01')
    return replaylib.verdict(PID, path, ['pipe:%s:%s range %d-%d opts %s: %s' % (rp.get('kind', '?'), clause, start, end, ' '.join(opts + (['-I', 'Wrap=1'] if wrap else [])),
                                                                               c['err'] or c['stderr'][:200]) for _, clause in fails])
