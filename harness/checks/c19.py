"""C19 - contention simulation only adds the delays the ULA would impose (DESIGN §4 C19)."""
import json
import multiprocessing as mp
import os

from ..lib import cbuild, tlc
from ..lib.common import workdir, rmworkdir, seed, log, MachineryError
from ..lib.report import Report
from ..drivers import simdrv, cmiodrv, replaylib

PID = 'C19'


KINDS = {'py48': '48', 'c48': '48', 'pycm48': '48', 'py128': '128', 'c128': '128', 'c128odd': '128', 'pycm128odd': '128',
         'c128even': 'zero'}


def _tables_job(_):
    return cmiodrv.delay_tables()


def judge_delay_tables(rep, tabs, wd):
    """Pattern D: every frame position of both machines, enumerated by TLC, looked up in the implementation's tables."""
    tables = [{'name': n, 'kind': KINDS[n], 'n': len(tabs[n]), 'data': tabs[n]} for n in sorted(tabs)]
    for t in tables:
        if t['n'] != (69888 if t['kind'] == '48' else 70908):
            rep.violation('delay-table:%s:size' % t['name'], 'wait-state table %s has %d entries' % (t['name'], t['n']), None)
            return
    path = os.path.join(wd, 'delaytables.json')
    with open(path, 'w') as f:
        json.dump(tables, f, separators=(',', ':'))
    r = tlc.run(os.path.join(tlc.SPEC, 'z80'), 'DelayTables', 'DelayTables.cfg', env={'TABLES': path}, tag='DelayTables',
                timeout=1800, heap='8g')
    tlc.check_machinery(r, 'DelayTables')
    total = sum(t['n'] for t in tables)
    if r.distinct != 2 * total:
        raise MachineryError('DelayTables: expected %d states, got %d\n%s' % (2 * total, r.distinct, r.out[-2000:]))
    rep.add_tlc(r, 'DelayTables', traces=len(tables))
    rep.extra['delay_table_entries_enumerated_by_tlc'] = total
    rep.extra['delay_tables'] = [t['name'] for t in tables]
    for code, clause in r.fails:
        k, t = code // 1000000 - 1, code % 1000000
        tb = tables[k]
        if clause == 'spec-pattern':
            raise MachineryError('DelayTables: the specification violates its own pattern facts at t=%d (%s)' % (t, tb['kind']))
        rep.violation('delay-table:%s:t=%d' % (tb['name'], t),
                      'wait-state delay of %s at frame position %d is %d, the ULA pattern gives another value'
                      % (tb['name'], t, tb['data'][t]), {'table': tb['name'], 't': t, 'value': tb['data'][t]})


def run(tier):
    rep = Report(PID, tier)
    wd = workdir('c19')
    sd = seed()
    cbuild.build()
    variants = 6 if tier == 'quick' else 160
    v128, nlay = (2, 2) if tier == 'quick' else (36, 4)
    n = len(simdrv.slots())
    chunks = [(sd * 4099 + k, list(range(k, n, 16)), variants) for k in range(16)]
    chunks128 = [(sd * 8191 + 77 + k, list(range(k, n, 15)), v128, nlay) for k in range(15)]
    with mp.get_context('fork').Pool(16) as pool:
        tab_job = pool.map_async(_tables_job, [0])
        parts128 = pool.map_async(cmiodrv.gen_and_run128, chunks128)
        parts = pool.map(cmiodrv.gen_and_run, chunks)
        parts128 = parts128.get()
        tabs = tab_job.get()[0]
    judge_delay_tables(rep, tabs, wd)
    cases = [c for p in parts for c in p]
    n48 = len(cases)
    cases += [c for p in parts128 for c in p]
    log('C19: %d contended step cases (%d on the 128K layout)' % (len(cases), len(cases) - n48))
    rep.extra['cases_48k'] = n48
    rep.extra['cases_128k'] = len(cases) - n48
    odd_hi = sum(1 for c in cases if c['m128'] and c['odd'] and c['obs'][1]['r'][25] > c['obs'][0]['r'][25]
                 and (c['r'][24] >= 0xC000))
    rep.extra['cases_128k_delayed_with_pc_in_odd_bank'] = odd_hi
    if odd_hi < 20:
        raise MachineryError('vacuous C19 run: only %d delayed cases with PC in an odd bank at 0xC000' % odd_hi)
    delayed = 0
    for b in range(0, len(cases), 40000):
        part = cases[b:b + 40000]
        r, fails = tlc.judge('z80', 'CmioCases', 'CmioCases.cfg', part, casefile=os.path.join(wd, 'cmio.json'))
        rep.add_tlc(r, 'CmioCases', traces=len(part))
        for i, clause in fails:
            c = part[i]
            who, _, cl = clause.partition(':')
            rep.violation('cmio%s:%s:%s:%s' % ('128' if c['m128'] else '', c['key'].split('/')[0], who, cl),
                          '%s at PC=%d T=%d (frame pos %d): %s %s; dT py=%d pycm=%d ccm=%d'
                          % (c['key'], c['r'][24], c['r'][25], c['r'][25] % c['frame'], who, cl,
                             c['obs'][0]['r'][25] - c['r'][25], c['obs'][1]['r'][25] - c['r'][25], c['obs'][2]['r'][25] - c['r'][25]), c)
    for c in cases:
        d = c['obs'][1]['r'][25] - c['obs'][0]['r'][25]
        if d > 0:
            delayed += 1
            rep.nontrivial.add((c['key'].split('/')[0], d))
    rep.evaluations = len(cases) * 3
    rep.extra['cases_with_nonzero_delay'] = delayed
    if delayed < len(cases) // 20:
        raise MachineryError('vacuous C19 run: only %d of %d cases were delayed' % (delayed, len(cases)))
    rep.sample({k: cases[0][k] for k in ('key', 'r', 'ov', 'inv')})
    rep.rule = ('every opcode slot x PC/pointer/port/IR placements in contended, uncontended and ROM memory x frame positions '
                '(all phases around the first and last contended T, line starts/ends, border) on the 48K layout and on the 128K '
                'layout with odd and even banks at 0xC000 (paging locked); wait-state tables of both machines enumerated for every '
                'frame position by TLC (Python tables + delays observed on the Python and C simulators); distinct_nontrivial = '
                'distinct (slot, observed delay) with delay > 0')
    rep.exhaustive = False
    rep.assumptions = ['Z80Bus.tla transcribes the documented M-cycle breakdown and the ULA wait pattern; OTIR/OTDR internal-cycle '
                       'address accepted in both readings', 'paging is locked in the 128K cases so that the memory map is constant '
                       'during the step (paging itself is C08)']
    rmworkdir('c19')
    return rep.finish()


def replay(path):
    """./check C19 --replay replays/C19-n.json : the recorded contended step on py / pycm / ccm of the current tree again (or the
    wait-state tables dumped again), judged by CmioCases / DelayTables."""
    d, rp = replaylib.load(path, PID)
    wd = workdir('replay-c19')
    found = []
    if 'table' in rp:
        rep = Report(PID, 'replay')          # only collects what the judge says; never finished (no evidence written)
        tabs = cmiodrv.delay_tables()
        if rp['table'] not in tabs:
            raise MachineryError('unusable replay file %s: unknown wait-state table %r' % (path, rp['table']))
        judge_delay_tables(rep, tabs, wd)
        found = ['%s: %s' % (k, w) for k, w, _ in rep.violations if k.startswith('delay-table:%s:' % rp['table'])]
    else:
        replaylib.need(rp, path, 'key', 'r', 'ov', 'inv', 'frame', 'ia', 'm128', 'odd')
        c = cmiodrv.rerun(rp)
        r, fails = tlc.judge('z80', 'CmioCases', 'CmioCases.cfg', [c], casefile=os.path.join(wd, 'cmio.json'))
        for _, clause in fails:
            who, _, cl = clause.partition(':')
            found.append('cmio%s:%s:%s:%s: %s at PC=%d T=%d (frame pos %d); dT py=%d pycm=%d ccm=%d'
                         % ('128' if c['m128'] else '', c['key'].split('/')[0], who, cl, c['key'], c['r'][24], c['r'][25], c['r'][25] % c['frame'],
                            c['obs'][0]['r'][25] - c['r'][25], c['obs'][1]['r'][25] - c['r'][25], c['obs'][2]['r'][25] - c['r'][25]))
    rmworkdir('replay-c19')
    return replaylib.verdict(PID, path, found)
