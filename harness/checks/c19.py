"""C19 - contention simulation only adds the delays the ULA would impose (DESIGN §4 C19)."""
import json
import multiprocessing as mp
import os

from ..lib import cbuild, tlc
from ..lib.common import workdir, rmworkdir, seed, log, MachineryError
from ..lib.report import Report
from ..drivers import simdrv, cmiodrv

PID = 'C19'


def run(tier):
    rep = Report(PID, tier)
    wd = workdir('c19')
    sd = seed()
    cbuild.build()
    variants = 8 if tier == 'quick' else 160
    n = len(simdrv.slots())
    chunks = [(sd * 4099 + k, list(range(k, n, 16)), variants) for k in range(16)]
    with mp.get_context('fork').Pool(16) as pool:
        parts = pool.map(cmiodrv.gen_and_run, chunks)
    cases = [c for p in parts for c in p]
    log('C19: %d contended step cases' % len(cases))
    delayed = 0
    for b in range(0, len(cases), 40000):
        part = cases[b:b + 40000]
        r, fails = tlc.judge('z80', 'CmioCases', 'CmioCases.cfg', part, casefile=os.path.join(wd, 'cmio.json'))
        rep.add_tlc(r, 'CmioCases', traces=len(part))
        for i, clause in fails:
            c = part[i]
            who, _, cl = clause.partition(':')
            rep.violation('cmio:%s:%s:%s' % (c['key'].split('/')[0], who, cl),
                          '%s at PC=%d T=%d (frame pos %d): %s %s; dT py=%d pycm=%d ccm=%d'
                          % (c['key'], c['r'][24], c['r'][25], c['r'][25] % c['frame'], who, cl,
                             c['obs'][0]['r'][25] - c['r'][25], c['obs'][1]['r'][25] - c['r'][25], c['obs'][2]['r'][25] - c['r'][25]), c)
    for c in cases:
        d = c['obs'][1]['r'][25] - c['obs'][0]['r'][25]
        if d > 0:
            delayed += 1
            rep.nontrivial.add((c['key'].split('/')[0], d))
    rep.evaluations = len(cases) * 3
    rep.extra['cases_with_nonzero_delay'] = delayed
    if delayed < len(cases) // 20:
        raise MachineryError('vacuous C19 run: only %d of %d cases were delayed' % (delayed, len(cases)))
    rep.sample({k: cases[0][k] for k in ('key', 'r', 'ov', 'inv')})
    rep.rule = ('every opcode slot x PC/pointer/port/IR placements in contended, uncontended and ROM memory x frame positions '
                '(all phases around the first and last contended T, line starts/ends, border); distinct_nontrivial = distinct '
                '(slot, observed delay) with delay > 0')
    rmworkdir('c19')
    return rep.finish()
