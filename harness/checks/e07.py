"""E07 (extension) - the ASM directives that rewrite a skool file as it is read: @replace, @expand, @set-*, @assemble, @rem,
@equ, @remote, @ignoreua, @nowarn, @start, @end, one-branch @if around them (skoolkit/skoolparser.py, skoolutils.read_skool,
skoolasm.py, skoolhtml.py).

Specification: spec/asmdir/AsmDir.tla - the reader as a state machine over the lines of a skool file in two modes (asm, html),
written from sphinx/source/asm.rst ("ASM directives"): active replacements in file order, collected @expand texts (with the
`+` continuation), the property map, the @assemble pair, the @start/@end region, the pending @ignoreua / @nowarn, and what the
writer makes of it (replacements before macros, #DEF/#LET from @expand available everywhere, #PEEK of assembled bytes,
layout properties, warnings).

  (A) AsmDirMC / AsmDir_mc.cfg (thorough: _mct, _mcw): the machine model-checked on every file of up to MaxLines lines over a small line alphabet, both
      modes in lockstep (invariants: @assemble state = last directive read, a later @set overrides an earlier one, replacements
      are kept in file order, nothing outside @start..@end reaches the ASM writer or changes its state, the HTML reader ignores
      @start/@end and the ASM-only directives, @rem changes nothing, a pending @ignoreua/@nowarn is consumed by exactly the next
      comment/instruction, reading is a function of the file).  AsmDir_neg.cfg: a reader that lets @set through outside the
      region must be rejected (vacuity guard).
  (B) AsmDirCases: generated skool files (unique traceable word tokens, patterns from a small regex alphabet: literals,
      alternation, character classes, \\i, groups and back-references, alternative separators, the trailing-separator form) read
      by the real skool2asm.main and skool2html.main in-process; TLC judges the projected output (comment words per field,
      operation words, #PEEK values, indent/tab/label colons/CR+LF/instruction width/line width, EQU lines, warnings on stderr)
      against the specification.

Verdicts only about what the documentation states.  Undocumented: what happens to an undefined macro (`skip:undef-macro`), an
`@expand=+...` without a predecessor, where a wrapped line is broken below the maximum width (drift).
"""
import collections
import multiprocessing as mp
import os

from ..lib import cbuild, tlc
from ..lib.common import workdir, rmworkdir, seed, log, MachineryError, Timer
from ..lib.report import Report
from ..drivers import asmdirdrv

PID = 'E07'
# Mismatches on the unchanged tree triaged as genuine defects of skoolkit (reported to the lead, not in known_findings.json):
# printed as CANDIDATE-FINDING, exit status unaffected (VERIF_E07_STRICT=1: they fail).
CANDIDATES = {}          # the candidates found while building were repaired in /repo (see known_findings.json): a recurrence is a violation
STRICT = os.environ.get('VERIF_E07_STRICT') == '1'
CASE_FIELDS = ('mode', 'lines', 'obs')
OBS_FIELDS = ('err', 'fields', 'ops', 'indents', 'tab', 'colons', 'crlf', 'semis', 'maxw', 'cmaxw', 'fitw', 'cfitw', 'writer', 'ua', 'ld', 'equs')


def drive(jobs):
    out = []
    with mp.get_context('fork').Pool(16) as pool:
        it = pool.imap_unordered(asmdirdrv.worker, jobs)
        for _ in range(len(jobs)):
            try:
                out += it.next(timeout=600)
            except mp.TimeoutError:
                pool.terminate()
                raise MachineryError('E07: a driver worker produced nothing for 600 s')
    out.sort(key=lambda c: (c['gen']['seed'], c['mode']))
    return out


def slim(c):
    return {'mode': c['mode'], 'lines': c['lines'], 'obs': {k: c['obs'][k] for k in OBS_FIELDS}}


def judge(rep, cases, wd, name='AsmDirCases'):
    fails_all, drift = [], collections.Counter()
    step = 4000
    for lo in range(0, len(cases), step):
        part = cases[lo:lo + step]
        r, fails = tlc.judge('asmdir', 'AsmDirCases', 'AsmDirCases.cfg', [slim(c) for c in part],
                             casefile=os.path.join(wd, 'cases%d.json' % lo), env={'JAVA_TOOL_OPTIONS': '-Xss32m'}, timeout=3000)
        rep.add_tlc(r, '%s[%d:%d]' % (name, lo, lo + len(part)), traces=len(part))
        fails_all += [(part[i], clause) for i, clause in fails]
        seen = set()
        for nm, rest in r.notes:
            if nm == 'DRIFT' and rest:
                tid, _, kind = rest.partition(', ')
                if (tid, kind) not in seen:
                    seen.add((tid, kind))
                    drift[kind.strip('"')] += 1
                    part[int(tid) - 1].setdefault('drift', []).append(kind.strip('"'))
    return fails_all, drift


def stats_of(cases, skipped):
    """Vacuity: which directive kinds / judged clauses actually occur in the judged cases."""
    st = collections.Counter()
    for c in cases:
        if id(c) in skipped:
            st['skipped:' + c['mode']] += 1
            continue
        m = c['mode']
        st['judged:' + m] += 1
        started = False
        nrep = 0
        setnames = collections.Counter()
        for ln in c['lines']:
            k = ln['k']
            if k == 'start':
                started = True
            elif k == 'end':
                started = False
            inr = started or m == 'html'
            tag = '%s:%s:%s' % (m, k, 'in' if inr else 'out')
            st[tag] += 1
            if ln['c'] and inr:
                st['%s:if:%s' % (m, ln['c'])] += 1
            if k == 'replace' and inr:
                nrep += 1
                st['%s:replace:%s' % (m, ln['r']['kind'])] += 1
                if ln['r']['to'] >= 100:
                    st['%s:replace:to-macro' % m] += 1
            if k == 'expand' and inr and ln['plus']:
                st['%s:expand:plus' % m] += 1
            if k == 'expand' and inr and ln['p'][0][0] == 3:
                st['%s:expand:let' % m] += 1
            if k == 'set' and inr and m == 'asm':
                setnames[ln['name']] += 1
                st['asm:set:' + ln['name']] += 1
            if k == 'assemble' and inr:
                st['%s:assemble:%s' % (m, 'both' if ln['h'] >= 0 and ln['a'] >= 0 else ('h' if ln['h'] >= 0 else 'a'))] += 1
            if k in ('ignoreua', 'nowarn') and inr and m == 'asm':
                st['asm:%s:%s' % (k, 'list' if ln['a'] else 'all')] += 1
        if nrep >= 2:
            st['%s:replace:several' % m] += 1
        if any(v >= 2 for v in setnames.values()):
            st['asm:set:overridden'] += 1
        o = c['obs']
        if c.get('two_regions'):
            st['%s:two-regions' % m] += 1
        if c.get('start_mid'):
            st['%s:start-inside-entry' % m] += 1
        if any(w[0] == asmdirdrv.LINK for f in o['fields'] for w in f['w']):
            st['%s:obs:link-in-comment' % m] += 1
        if any(w[0] == asmdirdrv.LINK for w in o['ops']):
            st['%s:obs:link-in-operation' % m] += 1
        if m == 'asm':
            if o['ua']:
                st['asm:obs:ua-warning'] += 1
            if o['ld']:
                st['asm:obs:ld-warning'] += 1
            if o['equs']:
                st['asm:obs:equ'] += 1
            if o['crlf'] == 1:
                st['asm:obs:crlf'] += 1
            if o['tab'] == [1]:
                st['asm:obs:tab'] += 1
            if o['colons'] == [0]:
                st['asm:obs:no-colons'] += 1
            if o['fitw'] < 10 ** 6:
                st['asm:obs:wrapped'] += 1
            if o.get('writer'):
                st['asm:obs:writer'] += 1
            if o.get('cwrapped'):
                st['asm:obs:instruction-comment-wrapped'] += 1
            if o['maxw'] > 79:
                st['asm:obs:wider-than-default'] += 1
        for f in o['fields']:
            for w in f['w']:
                if w[0] == 0 and w[1] // 2 < 256:
                    st['%s:obs:peek-or-var-value' % m] += 1
                    break
    return st


NEED = ['judged:asm', 'judged:html',
        'asm:replace:in', 'asm:replace:out', 'html:replace:in', 'asm:replace:retag', 'asm:replace:inum', 'asm:replace:swap',
        'html:replace:retag', 'html:replace:inum', 'html:replace:swap', 'asm:replace:several', 'html:replace:several',
        'asm:replace:to-macro', 'html:replace:to-macro',
        'asm:expand:in', 'html:expand:in', 'asm:expand:plus', 'html:expand:plus', 'asm:expand:let', 'html:expand:let',
        'asm:set:in', 'asm:set:out', 'html:set:in', 'asm:set:overridden'] + ['asm:set:' + p for p in asmdirdrv.PROPS] + [
        'asm:assemble:in', 'asm:assemble:out', 'html:assemble:in', 'asm:assemble:both', 'asm:assemble:h', 'asm:assemble:a',
        'asm:rem:in', 'html:rem:in', 'asm:equ:in', 'asm:equ:out', 'asm:ignoreua:all', 'asm:ignoreua:list', 'asm:nowarn:all',
        'asm:nowarn:list', 'asm:start:in', 'asm:end:out', 'asm:text:out', 'asm:instr:out', 'asm:text:in', 'asm:instr:in',
        'asm:obs:ua-warning', 'asm:obs:ld-warning', 'asm:obs:equ', 'asm:obs:crlf', 'asm:obs:tab', 'asm:obs:no-colons',
        'asm:obs:wrapped', 'asm:obs:wider-than-default', 'asm:obs:peek-or-var-value', 'html:obs:peek-or-var-value',
        'asm:writer:in', 'asm:writer:out', 'html:writer:in', 'asm:obs:writer', 'asm:remote:in', 'html:remote:in', 'html:obs:link-in-comment', 'html:obs:link-in-operation', 'asm:two-regions', 'asm:start-inside-entry', 'asm:obs:instruction-comment-wrapped',
        'asm:if:always', 'asm:if:never', 'asm:if:asm', 'asm:if:html', 'html:if:always', 'html:if:never', 'html:if:asm', 'html:if:html']


def corrupt(c):
    """Binding demonstration: hand-corrupted copies of a judged observation must be rejected with the expected clause."""
    import copy
    out = []
    o = c['obs']
    if c['mode'] == 'asm' and o['fields'] and o['indents']:
        d = copy.deepcopy(c)
        d['obs']['indents'] = [o['indents'][0] + 1]
        out.append((d, 'set:indent'))
        d = copy.deepcopy(c)
        d['obs']['crlf'] = 1 - o['crlf'] if o['crlf'] in (0, 1) else 0
        out.append((d, 'set:crlf'))
        d = copy.deepcopy(c)
        d['obs']['fields'] = o['fields'][1:]
        out.append((d, 'start-end:lost'))
        d = copy.deepcopy(c)
        d['obs']['fields'] = o['fields'] + [{'id': 9999, 'w': []}]
        out.append((d, 'start-end:leak'))
    return out


def run(tier):
    rep = Report(PID, tier)
    timer = Timer()
    wd = workdir('e07')
    sd = seed()
    cbuild.repo_only()
    q = tier == 'quick'

    # (A) the machine itself (TLC runs while the real code is driven)
    import threading
    box = {}

    def mc():
        try:
            box['mc'] = tlc.model_check('asmdir', 'AsmDirMC', 'AsmDir_mc.cfg' if q else 'AsmDir_mct.cfg', timeout=1800, workers=4 if q else 8)
            if not q:       # the wide alphabet (swap rule under @if, never/always conditions, @nowarn) on shorter files
                box['mcw'] = tlc.model_check('asmdir', 'AsmDirMC', 'AsmDir_mcw.cfg', timeout=1800, workers=8)
            box['neg'] = tlc.run(os.path.join(tlc.SPEC, 'asmdir'), 'AsmDirMC', 'AsmDir_neg.cfg', workers=2, timeout=600, tag='AsmDirMC-neg')
        except BaseException as e:   # noqa: B902
            box['exc'] = e
    th = threading.Thread(target=mc)
    th.start()

    # (B) drive the real code
    nfiles = 1000 if q else 18000
    per = 25 if q else 100
    jobs = [(wd, sd * 100003 + i, per) for i in range((nfiles + per - 1) // per)]
    cases = drive(jobs)
    log('E07: %d observations in %.1fs' % (len(cases), timer.s()))
    fails, drift = judge(rep, cases, wd)
    skipped, cand, cand_ex = set(), collections.Counter(), {}
    skips = collections.Counter()
    for c, clause in fails:
        if clause.startswith('skip:'):
            skipped.add(id(c))
            skips['%s:%s' % (c['mode'], clause[5:])] += 1
            continue
        if c.get('two_regions') and c['mode'] == 'asm' and not STRICT:
            # "everything before @start / after @end is ignored" does not say what a second @start after an @end does
            skipped.add(id(c))
            skips['asm:two-regions:%s' % clause] += 1
            continue
        key = '%s:%s' % (c['mode'], clause)
        if clause == 'set:crlf' and c['obs'].get('lf_only') == ['reg']:
            key += ':wrapped-register-description'
        what = '%s of the generated file (seed %d): %s; observed %s' % (
            'skool2asm' if c['mode'] == 'asm' else 'skool2html', c['gen']['seed'], clause,
            str({k: v for k, v in c['obs'].items() if k != 'fields'})[:600])
        if key in CANDIDATES and not STRICT and key not in rep.known:
            cand[key] += 1
            cand_ex.setdefault(key, what)
            continue
        rep.violation(key, what, {'gen': c['gen'], 'clause': clause, 'skool': c['skool'], 'ref': c['ref'], 'obs': c['obs']})
    if STRICT:
        for c in cases:
            for dk in c.get('drift', []):
                rep.violation('strict:%s:%s' % (c['mode'], dk), 'drift counted as violation (VERIF_E07_STRICT)', {'gen': c['gen'], 'skool': c['skool'], 'obs': c['obs']})

    # binding demonstration on hand-corrupted observations
    good = [c for c in cases if id(c) not in skipped and not any(c is f[0] for f in fails)]
    demo = []
    for c in good:
        demo += corrupt(c)
        if len(demo) >= 40:
            break
    if demo and not rep.violations:
        dfails, _ = judge(rep, [d for d, _ in demo], wd, name='AsmDirCases-corrupted')
        got = {i: cl for i, cl in [(next(j for j, (d, _) in enumerate(demo) if d is c), cl) for c, cl in dfails]}
        for j, (d, want) in enumerate(demo):
            if got.get(j) != want:
                raise MachineryError('E07: corrupted observation %d (%s) was judged %r' % (j, want, got.get(j)))
        rep.extra['corrupted_observations_rejected'] = len(demo)

    th.join()
    if 'exc' in box:
        raise box['exc']
    r = box['mc']
    rep.add_tlc(r, 'AsmDirMC')
    rep.model_violation(r, 'AsmDirMC')
    if not r.violated and r.distinct < 5000:
        raise MachineryError('AsmDirMC explored only %d states' % r.distinct)
    if 'mcw' in box:
        rep.add_tlc(box['mcw'], 'AsmDirMC-wide')
        rep.model_violation(box['mcw'], 'AsmDirMC-wide')
    rn = box['neg']
    rep.add_tlc(rn, 'AsmDirMC-neg(expected failure)')
    if not any('SetOnlyInsideRegion' in v or 'OutsideRegionInert' in v for v in rn.violated):
        raise MachineryError('AsmDir_neg: a reader that obeys @set outside @start..@end is no longer rejected\n' + rn.out[-1500:])

    # vacuity
    st = stats_of(cases, skipped)
    empty = [k for k in NEED if not st[k]]
    if not rep.violations:
        if empty:
            raise MachineryError('E07: vacuous classes: %s' % empty)
        if len(skipped) > len(cases) // 3:
            raise MachineryError('E07: the specification skipped %d of %d cases' % (len(skipped), len(cases)))
        if not demo:
            raise MachineryError('E07: no case for the binding demonstration')
    for c in cases:
        rep.count((c['mode'], c['gen']['seed']))
    for c in cases[:2]:
        rep.sample({'mode': c['mode'], 'skool': c['skool'][:1500], 'obs': {k: c['obs'][k] for k in OBS_FIELDS if k != 'fields'}})
    rep.drift = sum(drift.values()) + sum(skips.values())
    rep.extra.update(generated=dict(st), drift_kinds=dict(drift), skipped=dict(skips))
    for key, n in sorted(cand.items()):
        print('CANDIDATE-FINDING: property=%s %s (x%d): %s' % (PID, key, n, CANDIDATES[key][:300]))
    rep.extra['candidate_findings'] = {k: {'count': n, 'what': CANDIDATES[k], 'example': cand_ex[k][:900]} for k, n in cand.items()}
    rep.rule = ('random skool files of 2-4 entries (title/description/registers/start/mid-block/end/instruction comments, one line per field, '
                'unique anchors zb<id>..ze<id>) with scattered @replace (literal, alternation, class, \\i with and without \\1, swap with two '
                'groups; separators / | ! , :; trailing-separator form), @expand (#DEF in one line or split with +, #LET), @set-* (8 properties), '
                '@assemble (all value forms), @rem, @equ, @remote + #R..@oth / JP / CALL, @if({asm}|{html}|0|1)(...) wrappers, @ignoreua / @nowarn '
                '(all / list), @start..@end at entry boundaries or inside an entry, sometimes two regions; each file '
                'read by skool2asm and skool2html (+ ref file page). distinct_nontrivial = distinct (mode, file seed)')
    rep.assumptions = [
        'token shapes make every generated regular expression match whole words only (fixed-width tags, numbers glued to tags)',
        'first bytes of the generated instructions (LD r,n / LD rr,nn / RET / DEFB / DEFM) come from a table in the driver',
        'an undefined macro (e.g. its @expand stands outside @start..@end) is not judged (skip:undef-macro, counted as drift)',
        '@start inside an entry only before its first instruction, @end inside an entry only after it; a second @start..@end region is read '
        'as the code does (re-enabled) but a mismatch there would be drift; properties with integer values in their usual ranges',
        '@remote only for one other disassembly (oth) with disjoint address lists; @if only in the one-branch form around directives without '
        'commas or parentheses',
        'greedy wrapping below line-width is drift, only "no comment line longer than line-width" is judged',
        '@writer: at most one directive per file, both documented forms; @bank, table-*/bullet/wrap-column-width-min/handle-unsupported-macros properties, skool2bin: not covered',
    ]
    rmworkdir('e07')
    return rep.finish()


def replay(path):
    """./check E07 --replay replays/E07-n.json : regenerate the recorded file (seed, mode), read it with the tools of the current
    tree again and let AsmDirCases judge the fresh observation."""
    from ..drivers import replaylib
    import random
    d, rp = replaylib.load(path, PID)
    replaylib.need(rp, path, 'gen')
    wd = workdir('replay-e07')
    cbuild.repo_only()
    rep = Report(PID, 'replay')
    found = []
    try:
        import re
        g = rp['gen']
        asmdirdrv.install_writer(wd)
        c = asmdirdrv.gen_case(random.Random(g['seed']), g['mode'])
        c['gen'] = g
        norm = lambda t: re.sub(r'@writer=.*e07writer', '@writer=e07writer', t)     # noqa: E731
        if 'skool' in rp and norm(rp['skool']) != norm(c['skool']):
            raise MachineryError('unusable replay file %s: the generator no longer produces the recorded file for this seed' % path)
        c['obs'] = asmdirdrv.observe(c, wd, 'replay')
        fails, drift = judge(rep, [c], wd)
        print('  observed: %s' % str({k: v for k, v in c['obs'].items() if k != 'fields'})[:1200])
        found = ['%s: %s' % (c['mode'], clause) for _, clause in fails if not clause.startswith('skip:')]
        if drift:
            print('  drift: %s' % dict(drift))
    finally:
        rmworkdir('replay-e07')
    return replaylib.verdict(PID, path, found)
