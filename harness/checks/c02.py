"""C02 - assembler and disassembler are mutual inverses (DESIGN §4 C02)."""
import multiprocessing as mp
import os

from ..lib import cbuild, tlc
from ..lib.common import workdir, rmworkdir, seed, log, MachineryError
from ..lib.report import Report
from ..drivers import simdrv, asmdrv, replaylib

PID = 'C02'
SLIM_KEYS = {'dis': ('kind', 'pc', 'ov', 'opts', 'template', 'lits', 'ibytes', 'reasm', 'exc'),
             'def': ('kind', 'data', 'covers', 'reasm', 'exc'), 'asm': ('kind', 'accepted', 'bytes1', 'bytes2', 'exc')}


def run(tier):
    rep = Report(PID, tier)
    wd = workdir('c02')
    sd = seed()
    variants = 30 if tier == 'quick' else 300
    ndef = 6000 if tier == 'quick' else 60000
    nasm = 8000 if tier == 'quick' else 80000
    n = len(simdrv.slots())
    with mp.get_context('fork').Pool(16) as pool:
        dis = pool.map(asmdrv.gen_dis, [(sd * 31 + k, list(range(k, n, 16)), variants) for k in range(16)])
        defs = pool.map(asmdrv.gen_def, [(sd * 37 + k, ndef // 16) for k in range(16)])
        asms = pool.map(asmdrv.gen_asm, [(sd * 41 + k, nasm // 16) for k in range(16)])
    cases = [c for p in dis for c in p] + [c for p in defs for c in p] + [c for p in asms for c in p]
    log('C02: %d cases' % len(cases))
    slim_keys = SLIM_KEYS
    accepted = crashes = 0
    for b in range(0, len(cases), 50000):
        part = cases[b:b + 50000]
        slim = [{k: c[k] for k in slim_keys[c['kind']]} for c in part]
        r, fails = tlc.judge('asm', 'AsmCases', 'AsmCases.cfg', slim, casefile=os.path.join(wd, 'asm.json'))
        rep.add_tlc(r, 'AsmCases', traces=len(part))
        for i, clause in fails:
            c = part[i]
            if c['kind'] == 'dis':
                key = 'dis:%s:base=%s:%s' % (c['key'], c['base'][0], clause)
                what = '%s at %d base %s hex=%d lower=%d opts=%s -> %r -> %s: %s' % (
                    c['key'], c['pc'], c['base'], c['hex'], c['lower'], ','.join(c['opts']), c['text'], c['reasm'], clause)
            elif c['kind'] == 'def':
                key = 'def:%s:%s' % (c['stmt'], clause)
                what = '%s of %s sublengths %s hex=%d lower=%d -> %r -> %s: %s' % (
                    c['stmt'], c['data'], c['sublengths'], c['hex'], c['lower'], c['texts'], c['reasm'], clause)
            else:
                key = 'asm:%s:%s' % (c['key'], clause)
                if clause == 'not-a-byte' and '-0' in c['text'].replace(' ', '').upper().replace('$', '').replace('%', ''):
                    key = 'asm:index-minus-zero:not-a-byte'
                what = 'assemble(%r, %d) = %s; disassembled %r; reassembled %s: %s' % (
                    c['text'], c['addr'], c['bytes1'], c['text2'], c['bytes2'], clause)
            rep.violation(key, what, c)
    for c in cases:
        if c['kind'] == 'dis':
            rep.count((c['key'], c['base'], c['hex'], c['lower']))
        elif c['kind'] == 'def':
            rep.count((c['stmt'], tuple(map(tuple, c['sublengths'])), tuple(c['data'])))
        else:
            rep.evaluations += 1
            if c['accepted']:
                accepted += 1
                rep.nontrivial.add(c['text'])
            if c['exc']:
                crashes += 1
    rep.drift = crashes
    rep.extra['spellings_accepted'] = accepted
    rep.extra['assembler_crashes_on_generated_text (drift, outside property)'] = crashes
    if accepted < nasm // 4:
        raise MachineryError('vacuous: only %d of %d generated spellings were accepted by the assembler' % (accepted, nasm))
    for k in ('dis', 'def', 'asm'):
        rep.sample([c for c in cases if c['kind'] == k][0])
    rep.rule = ('dis: 1792 opcode slots x operand bytes (special characters, boundaries) x addresses (incl. 64K wrap) x base '
                'indicators x case x default base x Opcodes sets; def: DEFB/DEFM/DEFW/DEFS ranges with sublength lists; asm: '
                'generated spellings (hex/bin/char/expressions/whitespace/case, edge displacements and jump offsets); '
                'distinct_nontrivial = distinct (slot, base, hex, lower) + DEF inputs + accepted spellings')
    rmworkdir('c02')
    return rep.finish()


def replay(path):
    """./check C02 --replay replays/C02-n.json : the recorded bytes / DEFx range / spelling through the Disassembler and
    Assembler of the current tree again, judged by AsmCases."""
    d, rp = replaylib.load(path, PID)
    replaylib.need(rp, path, 'kind')
    cbuild.repo_only()
    from skoolkit.z80 import Assembler
    asm = Assembler()
    wd = workdir('replay-c02')
    cases = []
    if rp['kind'] == 'dis':
        replaylib.need(rp, path, 'key', 'pc', 'ov', 'base', 'hex', 'lower', 'opts')
        mem = list(simdrv.BASE)
        for a, b in rp['ov']:
            mem[a] = b
        cases.append(asmdrv.dis_case(mem, rp['key'], rp['pc'], rp['ov'], rp['base'], bool(rp['hex']), bool(rp['lower']), rp['opts'], asm))
    elif rp['kind'] == 'def':
        replaylib.need(rp, path, 'stmt', 'start', 'data', 'hex', 'lower', 'sublengths')
        inp = rp.get('input')
        if inp:
            datas, sizes = [inp['data']], [inp['sizes']]
        else:
            # written before the input was recorded: `data` is what the statements carried (an odd DEFW range has one byte more),
            # and the DefbSize/DefmSize/DefwSize of the run are unknown: every combination the generator uses
            n = sum(s[0] for s in rp['sublengths']) if all(s[0] for s in rp['sublengths']) else len(rp['data'])
            datas = [rp['data'][:n]]
            sizes = [[b, m, w] for b in (1, 3, 8) for m in (1, 4, 66) for w in (1, 2)]
        for data in datas:
            for sz in sizes:
                cases.append(asmdrv.def_case(asm, [0] * 65536, rp['stmt'], rp['start'], list(data), bool(rp['hex']), bool(rp['lower']),
                                             [tuple(s) for s in rp['sublengths']], sz))
    elif rp['kind'] == 'asm':
        replaylib.need(rp, path, 'text', 'addr')
        # the disassembler's hex / lower-case setting of the recorded run; all four when it was not recorded (or nothing was
        # disassembled in that run because the text was not accepted)
        cfgs = [rp['dis_cfg']] if 'dis_cfg' in rp else [[h, l] for h in (0, 1) for l in (0, 1)]
        for h, l in cfgs:
            cases.append(asmdrv.asm_case(asm, [0] * 65536, rp['text'], rp['addr'], lambda: (bool(h), bool(l))))
    else:
        raise MachineryError('unusable replay file %s: unknown case kind %r' % (path, rp['kind']))
    r, fails = tlc.judge('asm', 'AsmCases', 'AsmCases.cfg', [{k: c[k] for k in SLIM_KEYS[c['kind']]} for c in cases],
                         casefile=os.path.join(wd, 'asm.json'))
    found = []
    for i, clause in fails:
        c = cases[i]
        if c['kind'] == 'dis':
            found.append('dis:%s:base=%s:%s: %s at %d -> %r -> %s' % (c['key'], c['base'][0], clause, c['ibytes'], c['pc'], c['text'], c['reasm']))
        elif c['kind'] == 'def':
            found.append('def:%s:%s: %s sublengths %s sizes %s -> %r -> %s' % (c['stmt'], clause, c['input']['data'], c['sublengths'],
                                                                              c['input']['sizes'], c['texts'], c['reasm']))
        else:
            found.append('asm:%s:%s: assemble(%r, %d) = %s; disassembled %r; reassembled %s' % (c['key'], clause, c['text'], c['addr'], c['bytes1'],
                                                                                              c['text2'], c['bytes2']))
    rmworkdir('replay-c02')
    return replaylib.verdict(PID, path, found)
