"""C14 - sna2ctl emits a complete, ordered, non-overlapping control file (DESIGN §4 C14)."""
import multiprocessing as mp
import os
import re

from ..lib import cbuild, tlc
from ..lib.common import workdir, rmworkdir, seed, log, MachineryError
from ..lib.report import Report
from ..drivers import ctldrv, replaylib

PID = 'C14'
FT_KEYS = ('kind', 'len', 'isend', 'pre', 'from', 'limit', 'ctl', 'n', 'clip', 'post', 'ret', 'exc')
OUT_KEYS = ('kind', 'strict', 'start', 'end', 'dirs', 'subs', 'map', 'iaddr', 'warn', 'timeout', 'err', 'skoolerr', 'mem', 'ignored',
            'binstart', 'bin', 'stmts')


def out_key(c, clause):
    """The key of a failed sna2ctl run: image class and clause, or one of the narrower input classes of the open findings."""
    key = 'out:%s:%s' % (c['image_kind'], clause)
    if c['image_kind'] == 'top' and clause == 'sub-block-off-boundary' and 65536 in c['subs']:
        return 'out:top:sub-block-off-boundary:rst-argument-beyond-top'        # -r: 'B 65536,1' for an RST at 65535
    if 'cut_kept' in c:
        return key + ':' + c['cut_kept'] + '+%d' % c['cut_missing']      # what is left of the last instruction + bytes cut off
    dirs = c['dirs']
    if clause == 'terminator' and c['end'] < 65536 and any(d == ['i', c['end']] for d in dirs) and dirs[-1][1] > c['end'] \
            and all(d[0] == 'U' for d in dirs[dirs.index(['i', c['end']]) + 1:]):
        # the terminating directive is there, followed by a 'U' (the generator's internal 'unknown' mark) beyond the end address
        return 'out:terminator:U-directive-beyond-end'
    if clause == 'overlap-warning':
        m = re.search(r'Instruction at (\d+) overlaps the following instruction at (\d+)', c.get('warning', ''))
        if not m:
            return key
        x, y = int(m.group(1)), int(m.group(2))
        cb = [i for i, d in enumerate(dirs) if d[1] <= x]
        if not c['map'] and cb and dirs[cb[-1]][0] == 'c' and cb[-1] > 0 and dirs[cb[-1] - 1][0] == 't':
            # no code map: the overlapping instruction is in a code block that is what was left of a code block after the text in it
            return 'out:overlap-warning:text-in-code-splits-instruction'
        if x not in c['map'] and y in c['map']:
            # an entry point that sna2ctl's heuristics created in UNEXECUTED bytes runs into an executed instruction
            return 'out:overlap-warning:unexecuted-entry-overlaps-executed'
        if c.get('rst_undeclared') and x not in c['map']:
            # the program's RST routines take inline arguments that sna2ctl is not told about (no -r, or another RSTHandlerConfig
            # than what the program does): it reads them as instructions, which are not the executed ones
            return 'out:overlap-warning:rst-arguments-not-as-configured'
        e, ln = ctldrv.is_end_at(c['image'], x - c['org'])
        if y in c.get('rst_walk_ends', ()) and e and ln > y - x:
            # -r and -m: a directive where a jump/return ends that is found by reading on from the first argument byte of an executed
            # RST (arguments as configured), inside another multi-byte jump/return
            return 'out:overlap-warning:rst-argument-walk:directive-inside-jump'
    return key


def run(tier):
    rep = Report(PID, tier)
    wd = workdir('c14')
    sd = seed()
    # (A) the directive-map algorithm on the abstract model
    r = tlc.model_check('ctl', 'CtlGen', 'CtlGen_mc.cfg', timeout=1800, coverage=False)
    rep.add_tlc(r, 'CtlGen_mc')
    rep.model_violation(r, 'CtlGen_mc')
    # vacuity guard: the walk as it was before the repair (directives deleted / added beyond the limit) must break the tiling
    rn = tlc.model_check('ctl', 'CtlGen', 'CtlGen_neg.cfg', timeout=900, coverage=False)
    rep.add_tlc(rn, 'CtlGen_neg(expected violation)')
    if 'TilesRange' not in rn.violated:
        raise MachineryError('CtlGen_neg: the unrepaired FindTerminal no longer violates TilesRange (vacuous invariant?)')
    # (B) binding
    nft, nout = (3000, 40) if tier == 'quick' else (60000, 600)
    with mp.get_context('fork').Pool(16) as pool:
        fts = pool.map(ctldrv.ft_cases, [(sd * 53 + k, nft // 16) for k in range(16)])
        # all 1792 opcode slots as straight-line images of 14 (quick) / 7 (thorough: two passes) instructions
        per = 14 if tier == 'quick' else 7
        groups = [list(range(g, min(g + per, 1792))) for g in range(0, 1792, per)]
        if tier != 'quick':
            groups += [list(range(g, 1792, 256)) for g in range(256)]
        outs = pool.map(ctldrv.out_cases, [(sd * 59 + k, nout, wd, groups[k::16], [ctldrv.PROBE_UNEXECUTED_ENTRY, ctldrv.PROBE_U_BEYOND_END, ctldrv.PROBE_RST_ARG_WALK,
                                                                      ctldrv.PROBE_TEXT_SPLITS_INSTRUCTION] if k == 0 else [])
                                           for k in range(16)])
        # programs whose RST routines take inline arguments with opcode-like values (sna2ctl -r, with and without -m)
        nrst = 60 if tier == 'quick' else 900
        rsts = pool.map(ctldrv.rst_cases, [(sd * 61 + k, nrst, wd) for k in range(16)])
        # images whose last instruction is cut by the top of memory / by END: every pattern x every cut position (a sweep, no chance)
        specs = ctldrv.cut_specs(sd if tier == 'quick' else None)
        cuts = pool.map(ctldrv.cut_cases, [(specs[k::16], wd, k) for k in range(16)])
        # sub-ranges of traced programs: the map file has the whole trace (END itself, addresses below START and above END)
        beys = pool.map(ctldrv.beyond_cases, [(sd * 67 + k, 40 if tier == 'quick' else 500, wd) for k in range(16)])
        # no code map: an RST with inline arguments, then text (of characters that are opcodes) inside the same code block, -r
        rtxs = pool.map(ctldrv.rsttext_cases, [(sd * 71 + k, 60 if tier == 'quick' else 700, wd) for k in range(16)])
    ft = [c for p in fts for c in p]
    out = [c for p in outs for c in p] + [c for p in rsts for c in p] + [c for p in cuts for c in p] + [c for p in beys for c in p] \
        + [c for p in rtxs for c in p]
    log('C14: %d find-terminal calls, %d sna2ctl runs' % (len(ft), len(out)))
    cases = [{k: c[k] for k in FT_KEYS} for c in ft] + [{k: c[k] for k in OUT_KEYS} for c in out]
    full = ft + out
    r, fails = tlc.judge('ctl', 'CtlCases', 'CtlCases.cfg', cases, casefile=os.path.join(wd, 'ctl.json'))
    rep.add_tlc(r, 'CtlCases', traces=len(cases))
    with_map = sum(1 for c in out if c['map'])
    with_sub = sum(1 for c in out if c['subs'])
    rep.extra['runs_with_code_map'] = with_map
    rep.extra['runs_with_sub_block_directives'] = with_sub
    rep.extra['opcode_slot_sweep_images'] = sum(1 for c in out if c['image_kind'] == 'sweep')
    if with_map < (len(out) - rep.extra['opcode_slot_sweep_images']) // 4 or with_sub == 0:
        raise MachineryError('vacuous C14 run: %d runs with code map, %d with sub-blocks' % (with_map, with_sub))
    # RST arguments: runs with -r and -m in which an executed RST has handled arguments that .. (see ctldrv.rst_stats)
    rm = [c for c in out if c['image_kind'] == 'rst' and c['map'] and ('-r' in c['args'] or '--handle-rst' in c['args'])]
    rm_ids = set(id(c) for c in rm)
    rep.extra['rst_runs'] = sum(1 for c in out if c['image_kind'] == 'rst')
    rep.extra['rst_runs_r_and_m_handled_argument'] = sum(1 for c in rm if c['rst_handled'])
    rep.extra['rst_runs_r_and_m_opcode_like_argument'] = sum(1 for c in rm if c['rst_oplike'])
    rep.extra['rst_runs_r_and_m_argument_reads_as_jump_or_return'] = sum(1 for c in rm if c['rst_endlike'])
    rep.extra['rst_runs_r_and_m_argument_jump_ends_inside_next_instruction'] = sum(1 for c in rm if c['rst_sharp'])
    rep.extra['rst_runs_r_and_m_word_argument'] = sum(1 for c in rm if c['rst_handled'] and ':W' in c['rstcfg'])
    rep.extra['rst_argument_straddles_end(not judged)'] = sum(c.get('rst_argument_straddles_end', 0) for c in out)
    rep.extra['rst_runs_m_without_r'] = sum(1 for c in out if c['image_kind'] == 'rst' and c['map'] and id(c) not in rm_ids and c['rst_sites'])
    for k in ('rst_runs_r_and_m_opcode_like_argument', 'rst_runs_r_and_m_argument_jump_ends_inside_next_instruction',
              'rst_runs_r_and_m_word_argument', 'rst_runs_m_without_r'):
        if not rep.extra[k]:
            raise MachineryError('vacuous C14 run: %s = 0' % k)
    # instructions cut by the end of the range: placements (what is left of the instruction, top of memory or explicit END)
    for kind, name in (('top', 'cut_runs_top_of_memory'), ('cut', 'cut_runs_explicit_end')):
        cc = [c for c in out if c['image_kind'] == kind and c.get('cut_missing')]
        rep.extra[name] = len(cc)
        rep.extra[name + '_distinct_placements'] = len(set((c['cut_kept'], c['cut_missing']) for c in cc))
        rep.extra[name + '_with_map'] = sum(1 for c in cc if c['map'])
        if not cc or rep.extra[name + '_distinct_placements'] < 60 or not rep.extra[name + '_with_map']:
            raise MachineryError('vacuous C14 run: %s = %d (%d placements)' % (name, len(cc), rep.extra[name + '_distinct_placements']))
    rep.extra['cut_runs_top_of_memory_without_e'] = sum(1 for c in out if c['image_kind'] == 'top' and c.get('cut_missing') and '-e' not in c['args'])
    if not rep.extra['cut_runs_top_of_memory_without_e']:
        raise MachineryError('vacuous C14 run: no image cut by the top of memory without -e')
    # code maps that list addresses outside [START, END): per format, maps with END itself / anything below START / above END
    for fmt in ctldrv.MAP_FORMATS:
        mm = [c for c in out if c['map'] and c['mapfmt'] == fmt and c['end'] < 65536]
        n_end = sum(1 for c in mm if c['end'] in c.get('map_outside', ()))
        n_below = sum(1 for c in mm if any(a < c['start'] for a in c.get('map_outside', ())))
        n_above = sum(1 for c in mm if any(a > c['end'] for a in c.get('map_outside', ())))
        rep.extra['maps_%s' % fmt] = {'runs': len(mm), 'with_END': n_end, 'with_below_START': n_below, 'with_above_END': n_above,
                                      'END_is_jump_target': sum(1 for c in mm if c.get('end_is_target') and c['end'] in c['map_outside'])}
        if not (n_end and n_below and n_above and rep.extra['maps_%s' % fmt]['END_is_jump_target']):
            raise MachineryError('vacuous C14 run: code maps in format %s: %s' % (fmt, rep.extra['maps_%s' % fmt]))
    # text inside a code block after an RST with arguments (no code map, -r): where the code resumes after the text
    rt = [c for c in out if c['image_kind'] == 'rsttext' and c['rt_handled_site'] and c['rt_text_in_code']]
    rep.extra['rsttext_runs'] = sum(1 for c in out if c['image_kind'] == 'rsttext')
    rep.extra['rsttext_runs_r_text_in_code_block_after_handled_rst'] = len(rt)
    rep.extra['rsttext_runs_.._resume_address_differs_without_handler'] = sum(1 for c in rt if c['rt_resume_differs'])
    rep.extra['rsttext_runs_.._and_is_inside_an_instruction'] = sum(1 for c in rt if c['rt_resume_differs'] and c['rt_resume_inside'])
    rep.extra['rsttext_runs_.._and_a_decoding_from_there_runs_into_the_next_block'] = sum(1 for c in rt if c['rt_resume_differs'] and c['rt_overrun'])
    rep.extra['rsttext_runs_.._word_argument'] = sum(1 for c in rt if c['rt_resume_differs'] and ':W' in c['rstcfg'])
    for k in list(rep.extra):
        if k.startswith('rsttext_runs') and not rep.extra[k]:
            raise MachineryError('vacuous C14 run: %s = 0' % k)
    for c in ft:
        rep.count(('ft', tuple(c['len']), tuple(c['isend']), str(c['pre']), c['from'], c['limit'], c['ctl']))
    for c in out:
        rep.count(('out', c['image_kind'], tuple(c['args'][:6]), len(c['map']), tuple(c['image']) if c['image_kind'] in ('rst', 'top', 'cut', 'rsttext') else 0))
    rep.sample({k: ft[0][k] for k in FT_KEYS})
    rep.sample({k: out[0][k] for k in ('start', 'end', 'args', 'dirs', 'map')})
    for i, clause in fails:
        c = full[i]
        if c['kind'] == 'ft':
            rep.violation('ft:%s:%s' % (c['ctl'], clause),
                          '_find_terminal_instruction(len=%s end=%s ctls=%s from=%d limit=%d ctl=%s) -> %s ret %s: %s'
                          % (c['len'], c['isend'], c['pre'], c['from'], c['limit'], c['ctl'], c['post'], c['ret'], clause), c)
        else:
            key = out_key(c, clause)
            rep.violation(key,
                          'sna2ctl %s on %d bytes at %d: %s; directives %s; map %s; %s'
                          % (' '.join(c['args']), len(c['image']), c['org'], clause, c['dirs'][:12], c['map'][:20],
                             c.get('warning', '') or c['err'] or c['skoolerr']), c)
    rep.rule = ('ft: random abstract images (instruction lengths 1-3, END flags) x directive maps x (from, limit, ctl) through the '
                'real _find_terminal_instruction vs CtlGen!FindTerminal; out: image classes x ranges (incl. ending mid-instruction) '
                'x code maps in 5 formats from real simulator traces or arbitrary address sets x options -h/-l/-C/-r/Text*; plus every '
                'opcode slot (1792) once in straight-line images with -C; rst: programs whose RST routines step over 1/2 inline argument '
                'bytes (values mostly opcodes of jumps/returns, followed by 2-4 byte instructions), traced with those routines, x -m in 5 '
                'formats / none x -r / none x RSTHandlerConfig (skoolkit.ini: as the program does, default 8:B, something else); '
                'code maps: 8 formats (Z80 / SpecEmu map, rzxplay, Fuse profile, Spud / SpecEmu / Zero dec+hex logs; logs unsorted with '
                'repeats), a share lists addresses outside the range too (END, START-1, START-k, END+1, END+k, 65535); beyond: sub-ranges of '
                'traced programs with END at an executed CALL/JP target and the whole trace in the map; '
                'rsttext (no map): filler + code with RST n + arguments (first bytes of multi-byte instructions) + 5..30 text characters '
                'that are opcodes + short tail ending in RET/JP, x -r / none x RSTHandlerConfig x TextMinLengthCode; '
                'top/cut: 49 instruction patterns (every prefix class, undefined slots) x every cut position x 4 preambles x {image ends at '
                '65535 with / without -e, explicit -e below the top with the rest of the instruction in memory} x code map (none, straight '
                'line with / without the cut instruction) x -r x -C (quick: 3 of the 4 preambles and one -r/-C combination per placement, rotating with the seed); '
                'distinct_nontrivial = distinct inputs')
    rmworkdir('c14')
    return rep.finish()


def replay(path):
    """./check C14 --replay replays/C14-n.json : the recorded abstract image through _find_terminal_instruction again, or the
    recorded image / range / code map / options through sna2ctl (+ sna2skool + skool2bin) of the current tree again; CtlCases judges."""
    d, rp = replaylib.load(path, PID)
    wd = workdir('replay-c14')
    cbuild.repo_only()
    if rp.get('kind') == 'ft':
        replaylib.need(rp, path, 'len', 'isend', 'pre', 'from', 'limit', 'ctl')
        full = [ctldrv.ft_replay(rp)]
        cases = [{k: c[k] for k in FT_KEYS} for c in full]
    elif rp.get('kind') == 'out':
        replaylib.need(rp, path, 'image', 'org', 'args', 'map', 'strict', 'start', 'end')
        # the format of the code map file was not recorded by older runs: every format then
        fmts = [rp['mapfmt']] if 'mapfmt' in rp else (list(ctldrv.MAP_FORMATS) if rp['map'] else [''])
        full = [ctldrv.out_replay(os.path.join(wd, 'f%d' % i), rp, fmt) for i, fmt in enumerate(fmts)]
        cases = [{k: c[k] for k in OUT_KEYS} for c in full]
    elif 'tlc_output_tail' in rp:
        r = tlc.model_check('ctl', 'CtlGen', 'CtlGen_mc.cfg', timeout=1800, coverage=False)
        rmworkdir('replay-c14')
        return replaylib.verdict(PID, path, ['model:CtlGen_mc:%s' % inv for inv in r.violated])
    else:
        raise MachineryError('unusable replay file %s: neither a find-terminal call nor a sna2ctl run' % path)
    r, fails = tlc.judge('ctl', 'CtlCases', 'CtlCases.cfg', cases, casefile=os.path.join(wd, 'ctl.json'))
    found = []
    for i, clause in fails:
        c = full[i]
        if c['kind'] == 'ft':
            found.append('ft:%s:%s: _find_terminal_instruction(len=%s end=%s ctls=%s from=%d limit=%d ctl=%s) -> %s ret %s'
                         % (c['ctl'], clause, c['len'], c['isend'], c['pre'], c['from'], c['limit'], c['ctl'], c['post'], c['ret']))
        else:
            found.append('%s: sna2ctl %s (map format %s) on %d bytes at %d: directives %s; %s'
                         % (out_key(c, clause), ' '.join(c['args']), c['mapfmt'] or '-', len(c['image']), c['org'], c['dirs'][:12],
                            c.get('warning', '') or c['err'] or c['skoolerr']))
    rmworkdir('replay-c14')
    return replaylib.verdict(PID, path, found)
