"""E09 (extension) - skool2html's box pages and the other pages defined by [Page:*] sections.

(A) spec/boxpage/BoxList.tla - the reader of a ListItems / BulletPoints entry section as a state machine over lines (stack of open
    list levels, current item text; IntroLine, ItemLine(indentation), ContinuationLine, BlankLine, EndSection) producing the nested
    <ul> tree as UL / LI(text) / IL / LU tokens - is model-checked on every sequence of up to MaxLines lines: balanced, document
    order kept and every text exactly once, one item per item line, depth = the declarative reading of indentation, depth steps,
    the machine is the function Run, re-indentation that keeps the order keeps the tree, blank lines are ignored, the intro rule.
    BoxList_neg.cfg (a reader that closes only one level when the indentation goes back) must violate an invariant.
(B) random sites (drivers/boxdrv.py: built-in and custom pages, all SectionTypes, PageContent / Content pages, [Titles],
    [PageHeaders], [Links], [Paths], JavaScript, index group, sections split with '+' over one or two ref files, decoy sections) are
    run through the real skool2html.main; every written page is tokenised with html.parser; spec/boxpage/BoxCases.tla computes from
    the section blocks what the documentation says the page contains (which sections, order, anchors, titles, table of contents,
    paragraphs / list tree, title, header, link text, path, scripts) and compares (TLC decides).
A section with a blank line before an indented item is judged in full against "Blank lines between items are optional and are
ignored" (the tree without the blank lines; ListItems, and BulletPoints by analogy): clause list:<type>:blank-line-before-subitem.
What the documentation does not state (indentation unit other than the 2 of the examples, indentation that goes back to a column
between two open levels, continuation lines not aligned with the item text, a blank line inside an item, a box page without
entries) is drift when skoolkit's present choice changes, never a violation.
"""
import json
import multiprocessing as mp
import os
from collections import Counter

from ..lib import cbuild, tlc
from ..lib.common import workdir, rmworkdir, seed, log, MachineryError
from ..lib.report import Report
from ..drivers import boxdrv

PID = 'E09'
# Mismatches on the unchanged tree triaged as genuine defects of skoolkit and reported to the lead. Until the lead records them in
# known_findings.json they print CANDIDATE-FINDING and do not fail the check (VERIF_E09_STRICT=1: they do).
CANDIDATES = {}          # the candidates found while building were repaired in /repo (see known_findings.json): a recurrence is a violation
STRICT = os.environ.get('VERIF_E09_STRICT') == '1'
DROP = ('feat', 'files', 'k', 'hasindex', 'blocks', 'game', 'gjs', 'key')

REQUIRED = ['box::written', 'box:ListItems:written', 'box:BulletPoints:written', 'li:depth>=3', 'bp:depth>=3', 'li:depth>=4',
            'li:up-by-two-levels-or-more', 'bp:up-by-two-levels-or-more', 'li:deeper-by-two-units', 'bp:deeper-by-two-units',
            'bp:continuation', 'li:blank-between-items', 'bp:blank-between-items', 'li:blank-before-subitem', 'bp:blank-before-subitem', 'trailing-blank-lines',
            'li:intro-hyphen', 'bp:intro-hyphen', 'li:intro-only', 'para:several', 'page:custom-box', 'custom:with-entries', 'builtin:with-entries',
            'box:empty:builtin', 'box:empty:custom', 'page:PageContent', 'page:Content', 'page:Content+SectionPrefix', 'page:SectionPrefix+PageContent',
            'page:JavaScript', 'game:JavaScript', 'append:+', 'append:in-later-file', 'anchor:given', 'anchor:default', 'anchor:macro',
            'title:parentheses', 'title:whitespace', 'title:macro', 'macro', 'decoy:no-colon', 'decoy:other-prefix', 'meta:title', 'meta:header',
            'meta:header-prefix', 'meta:link', 'meta:link-bracket', 'meta:path', 'builtin:SectionType-overridden', 'box:several-entries',
            'prefix-shared-by-two-pages', 'li:unit-4', 'bp:continuation-other-indent']


def describe(c):
    return 'page %s of skool2html game.skool%s with game.ref %s%s' % (
        c['pid'], ' extra.ref' if c['files']['extra.ref'] is not None else '', json.dumps(c['files']['game.ref']),
        (' extra.ref ' + json.dumps(c['files']['extra.ref'])) if c['files']['extra.ref'] is not None else '')


def model(rep, tier):
    cfgs = ['BoxList_mcq_li.cfg', 'BoxList_mcq_bp.cfg'] if tier == 'quick' else ['BoxList_mc_li.cfg', 'BoxList_mc_bp.cfg']
    for cfg in cfgs:
        r = tlc.model_check('boxpage', 'BoxListMC', cfg, timeout=3000, coverage=True)
        rep.add_tlc(r, cfg)
        rep.model_violation(r, cfg)
        if not r.ok and not r.violated:
            raise MachineryError('BoxList %s did not finish\n%s' % (cfg, r.out[-2000:]))
        want = ['IntroLineA', 'BlankLineA', 'ItemLineA', 'EndSectionA'] + (['ContinuationLineA'] if cfg.endswith('bp.cfg') else [])
        never = [a for a in want if r.coverage.get(a, (0, 0))[1] == 0]
        if never:
            raise MachineryError('BoxList %s: actions never taken: %s' % (cfg, never))
    # the negative configuration: a reader that closes one level only must be refuted
    r = tlc.model_check('boxpage', 'BoxListMC', 'BoxList_neg.cfg', timeout=3000, coverage=False)
    rep.add_tlc(r, 'BoxList_neg.cfg (must fail)')
    if not r.violated:
        raise MachineryError('BoxList_neg.cfg: the broken reader was not refuted\n%s' % r.out[-2000:])
    rep.extra['negative_model'] = 'BoxList_neg.cfg violates ' + ', '.join(r.violated)


def run(tier):
    rep = Report(PID, tier)
    wd = workdir('e09/run')
    sd = seed()
    cbuild.repo_only()
    model(rep, tier)
    nsites = 1200 if tier == 'quick' else 20000
    seeds = [sd * 10000019 + i for i in range(nsites)]
    jobs = [(seeds[k::64], wd) for k in range(64) if seeds[k::64]]
    with mp.get_context('fork').Pool(16) as pool:
        parts = pool.map(boxdrv.worker, jobs, chunksize=1)
    recs = sorted((c for p in parts for c in p), key=lambda c: (int(c['key'].split(':')[0][1:]), c['key']))
    errs = [c for c in recs if c['k'] == 'error']
    if errs:
        raise MachineryError('E09 driver failed on %d sites, e.g. %s\n%s' % (len(errs), errs[0]['key'], errs[0]['err']))
    crashed = [c for c in recs if c['k'] == 'crash']
    rep.extra['sites_where_skool2html_raised'] = len(crashed)
    for c in crashed:
        why = c['err'].split(':')[0].split('(')[0][:40]
        rep.violation('site:skool2html-failed:%s' % why, '%s: skool2html stopped: %s [game.ref %s extra.ref %s]' % (
            c['key'], c['err'][:300], json.dumps(c['ref'])[:1500], json.dumps(c['extra'])[:500]), {'case': c['key'], 'files': c['files'], 'err': c['err']})
    cases = [c for c in recs if c['k'] == 'page']
    noindex = [c for c in cases if not c['hasindex']]
    if noindex:
        raise MachineryError('E09: no index page found for %s' % noindex[0]['key'])
    log('E09: %d sites, %d pages recorded' % (nsites, len(cases)))
    # ---- vacuity
    cnt = Counter()
    seen = set()
    for c in recs:
        s = c['key'].split(':')[0]
        if s not in seen:
            seen.add(s)
            cnt.update(c['feat'])
    for c in cases:
        rep.count()
        o = c['obs']
        if o['wr']:
            cnt['observed:written:' + o['kind']] += 1
            if o['idx']['has']:
                cnt['observed:linked-from-index'] += 1
            if any(t[0] == -1 for e in o['ents'] for t in e['toks']):
                d = m = 0
                for e in o['ents']:
                    for t in e['toks']:
                        d += 1 if t[0] == -1 else -1 if t[0] == -2 else 0
                        m = max(m, d)
                if m >= 3:
                    cnt['observed:nesting>=3'] += 1
        else:
            cnt['observed:not-written'] += 1
    rep.extra['classes'] = dict(sorted(cnt.items()))
    empty = [x for x in REQUIRED if not cnt[x]]
    if empty:
        raise MachineryError('E09 vacuity: no generated site has: %s' % empty)
    # the rule "blank lines between items are ignored" is judged in full where it matters: such sections must be frequent
    rare = [x for x in ('li:blank-before-subitem', 'bp:blank-before-subitem') if cnt[x] < nsites // 20]
    if rare:
        raise MachineryError('E09 vacuity: fewer than 5%% of the sites have: %s (%s)' % (rare, [cnt[x] for x in rare]))
    rep.nontrivial_count = sum(1 + len(c['obs']['ents']) for c in cases if c['obs']['wr'])
    # ---- TLC judges: one case per site (blocks once, the pages one by one)
    fails, drift = {}, Counter()
    sites, index = [], {}
    for i, c in enumerate(cases):
        s = c['key'].split(':')[0]
        if not sites or sites[-1]['key'] != s:
            sites.append({'key': s, 'game': c['game'], 'gjs': c['gjs'], 'blocks': c['blocks'], 'pages': []})
        sites[-1]['pages'].append({k: v for k, v in c.items() if k not in DROP})
        index[(len(sites) - 1, c['pid'])] = i
    size = 4000
    for start in range(0, len(sites), size):
        batch = sites[start:start + size]
        r, fl = tlc.judge('boxpage', 'BoxCases', 'BoxCases.cfg', batch, casefile=os.path.join(wd, 'cases.json'), timeout=3000)
        rep.add_tlc(r, 'BoxCases', traces=sum(len(b['pages']) for b in batch))
        for i, v in fl:
            pid, clause = v.split('|', 1)
            fails[index[(start + i, pid)]] = clause
        for k, v in r.notes:
            if k == 'DRIFT':
                tid, v = v.split(',', 1)
                pid, cls = v.strip().strip('"').split('|', 1)
                drift[cls] += 1
                if STRICT:
                    fails[index[(start + int(tid) - 1, pid)]] = 'strict:' + cls
    rep.drift = sum(drift.values())
    rep.extra['drift_classes'] = dict(drift)
    if drift:
        log('E09: drift %s' % dict(drift))
    for c in [x for x in cases if x['obs']['wr'] and x['obs']['kind'] == 'list'][:2] + [x for x in cases if x['obs']['wr'] and x['obs']['kind'] == 'para'][:1]:
        rep.sample({'key': c['key'], 'input': describe(c)[:1500], 'observed': json.dumps(c['obs'])[:1500]})
    cand, cand_ex = Counter(), {}
    for i, clause in sorted(fails.items()):
        c = cases[i]
        what = '%s: %s [%s]' % (c['key'], clause, describe(c)[:1800])
        if clause in CANDIDATES and not STRICT and clause not in rep.known:
            cand[clause] += 1
            cand_ex.setdefault(clause, what)
            continue
        kind = 'builtin' if c['pid'] in boxdrv.BUILTIN else 'custom'
        rep.violation('page:%s:%s' % (kind, clause), what,
                      {'case': c['key'], 'clause': clause, 'files': c['files'], 'observed': c['obs']})
    # what was observed must be non-trivial too - unless that is what the violations are about
    empty = [x for x in ('observed:written:para', 'observed:written:list', 'observed:written:page', 'observed:not-written',
                         'observed:linked-from-index', 'observed:nesting>=3') if not cnt[x]]
    if empty and not rep.violations:
        raise MachineryError('E09 vacuity: nothing observed of: %s' % empty)
    for key, n in sorted(cand.items()):
        print('CANDIDATE-FINDING: property=%s %s (x%d): %s' % (PID, key, n, CANDIDATES[key][:400]))
    rep.extra['candidate_findings'] = {k: {'count': n, 'what': CANDIDATES[k], 'example': cand_ex[k][:2500]} for k, n in cand.items()}
    rep.rule = ('random sites: the six built-in box pages and 1-3 custom [Page:*] pages (SectionPrefix with every SectionType, PageContent, Content), '
                'entry sections with anchors / default anchors / macros, paragraphs, ListItems and BulletPoints bodies (nesting up to 5 levels, '
                'going back several levels at once, blank lines, continuation lines, the single hyphen), sections split with + over one or two ref '
                'files, decoy sections, [Titles] / [PageHeaders] / [Links] / [Paths] / JavaScript; distinct_nontrivial = written pages + entries judged')
    rep.assumptions = ['html.parser tokenises the written pages (title, header cells, script names, table of contents, span ids, entry titles, '
                       'paragraph / intro / li texts as word numbers, ul / li nesting); the page of an ID is the file with <body class="ID">',
                       'the generator renders its abstract lines [ind, dash, words] to ref file text; ref file syntax and the file chain are E03',
                       'word k is written wk; the macro word is #IF(c)(wa,wb); a text that is not a word is the number 999999',
                       'link resolution and the set of files are C16; only the link text and target of the page on the index page are read here']
    rmworkdir('e09/run')
    return rep.finish()
