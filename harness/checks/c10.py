"""C10 - saving a snapshot mid-run and resuming from it is transparent (DESIGN §4 C10)."""
import multiprocessing as mp
import os

from ..lib import cbuild, tlc
from ..lib.common import workdir, rmworkdir, seed, log, MachineryError
from ..lib.report import Report
from ..drivers import rundrv, replaylib

PID = 'C10'
EMPTY = {'ramdiff': -1}
FIELDS = ('regs', 'iff', 'im', 'border', 'tpos', 'o7ffd', 'offfd', 'ay', 'banks', 'memptr')


def _case(rec, sp):
    """ResumeCases record of one split point (sp = None: the run in one go already failed)."""
    if sp is None:
        c = {'err': rec['err'], 'fmt': rec['fmt'], 'cmio': 0, 'ramdiff': -1}
        for f in FIELDS:
            c['a_' + f] = c['b_' + f] = 0
        return c
    c = {'err': sp['err'], 'fmt': rec['fmt'], 'cmio': 1 if '-c' in rec['opts'] else 0, 'ramdiff': sp.get('ramdiff', -1)}
    for f in FIELDS:
        c['a_' + f] = sp.get('a_' + f, 0)
        c['b_' + f] = sp.get('b_' + f, 0)
    return c


def run(tier):
    rep = Report(PID, tier)
    wd = workdir('c10')
    sd = seed()
    r = tlc.model_check('run', 'SaveResume_mc', 'SaveResume_mc.cfg', timeout=1800, coverage=False)
    rep.add_tlc(r, 'SaveResume_mc')
    rep.model_violation(r, 'SaveResume_mc')
    # the model must be able to see a loss: the I/O program on a 48K machine, whose AY state a 48K snapshot does not carry
    # (named deviation AyLostOn48K = the open finding resume:ay-on-48k), has to violate Transparent
    rn = tlc.model_check('run', 'SaveResume_mc', 'SaveResume_neg.cfg', timeout=600, coverage=False)
    rep.add_tlc(rn, 'SaveResume_neg(expected violation)')
    if 'Transparent' not in rn.violated:
        raise MachineryError('SaveResume_neg: the model no longer sees the AY state lost by a 48K snapshot (vacuous Transparent?)')
    cbuild.build()
    per = 26 if tier == 'quick' else 400
    with mp.get_context('fork').Pool(16) as pool:
        parts = pool.map(rundrv.legs, [(sd * 71 + k, per, wd) for k in range(16)])
    recs = [x for p in parts for x in p] + rundrv.probe_ay48(wd)
    cases, owners = [], []
    for rec in recs:
        if rec['err']:
            cases.append(_case(rec, None)); owners.append((rec, None))
            continue
        for sp in rec['splits']:
            cases.append(_case(rec, sp)); owners.append((rec, sp))
    log('C10: %d runs, %d split points' % (len(recs), len(cases)))
    rs, fails = tlc.judge('run', 'ResumeCases', 'ResumeCases.cfg', cases, casefile=os.path.join(wd, 'resume.json'))
    rep.add_tlc(rs, 'ResumeCases', traces=len(cases))
    for rec, sp in owners:
        rep.count((rec['key'], tuple(rec['opts']), rec.get('total'), sp['n1'] if sp else 0, rec['t0']))
    rep.evaluations = len(cases) * 3
    rep.sample({k: recs[0][k] for k in ('key', 'opts', 'fmt', 't0', 'kind')})
    for i, clause in fails:
        rec, sp = owners[i]
        big = rec['t0'] >= 2 ** 24 - 400
        key = 'resume:%s:%s%s' % (rec['fmt'], clause, ':tstates-near-2^24' if big and rec['fmt'] == 'szx' else '')
        if sp and sp.get('mid_halt') and '-c' in rec['opts'] and clause == 'frame-position':
            key = 'resume:saved-inside-halt:contended:frame-position'
        if rec['kind'] == 'ay48':
            key = 'resume:ay-on-48k:%s:%s' % (rec['fmt'], clause)
        rep.violation(key, 'trace.py %s from %s (start T=%d): %d instructions at once vs %s + snapshot(%s) + rest: %s differs; A=%s B=%s'
                      % (' '.join(rec['opts']), rec['key'], rec['t0'], rec.get('total', 0), sp and sp['n1'], rec['fmt'], clause,
                         sp and {k: v for k, v in sp.items() if k.startswith('a_') and k != 'a_banks' and k != 'a_ay'},
                         sp and {k: v for k, v in sp.items() if k.startswith('b_') and k != 'b_banks' and k != 'b_ay'}),
                      {'rec': {k: v for k, v in rec.items() if k != 'splits'}, 'split': sp})
    rep.rule = ('generated programs (EI/HALT/IM 2, prefix chains, repeating block instructions, loops) in start snapshots (48K/128K, '
                'z80/szx, T anywhere incl. just below frame end and just below 2^24) x sampled split points x {szx,z80} x '
                '{plain,-c} x {C,--python}; distinct_nontrivial = distinct (program class, options, length, split, start T)')
    rmworkdir('c10')
    return rep.finish()


def replay(path):
    """./check C10 --replay replays/C10-n.json : the recorded start snapshot through trace.py of the current tree again - the whole
    run in one go, and split at the recorded point with a snapshot in the recorded format in between - judged by ResumeCases."""
    d, rp = replaylib.load(path, PID)
    rec, sp = rp.get('rec'), rp.get('split')
    if not isinstance(rec, dict):
        raise MachineryError('unusable replay file %s: no run record in it (a violation of the SaveResume model is deterministic: rerun ./check C10)' % path)
    if 'startfile' not in rec:
        raise MachineryError('unusable replay file %s: written before start snapshots were recorded (%s is gone)' % (path, rec.get('start')))
    replaylib.need(rec, path, 'opts', 'fmt', 'total', 'm128')
    wd = workdir('replay-c10')
    new, nsp = rundrv.replay_case(wd, rec, sp['n1'] if sp else None)
    if new['err']:
        nsp = None
    elif nsp is None:
        # the one-go run failed in the recorded run but works now
        rmworkdir('replay-c10')
        return replaylib.verdict(PID, path, [])
    rs, fails = tlc.judge('run', 'ResumeCases', 'ResumeCases.cfg', [_case(new, nsp)], casefile=os.path.join(wd, 'resume.json'))
    found = ['resume:%s:%s: trace.py %s (start T=%s): %s instructions at once vs %s + snapshot(%s) + rest; %s'
             % (rec['fmt'], clause, ' '.join(rec['opts']), rec.get('t0'), rec['total'], nsp and nsp['n1'], rec['fmt'],
                new['err'] or nsp['err'] or {k: (nsp['a_' + k], nsp['b_' + k]) for k in FIELDS if k not in ('banks', 'ay') and nsp['a_' + k] != nsp['b_' + k]})
             for _, clause in fails]
    rmworkdir('replay-c10')
    return replaylib.verdict(PID, path, found)
