"""C10 - saving a snapshot mid-run and resuming from it is transparent (DESIGN §4 C10)."""
import multiprocessing as mp
import os

from ..lib import cbuild, tlc
from ..lib.common import workdir, rmworkdir, seed, log, MachineryError
from ..lib.report import Report
from ..drivers import rundrv

PID = 'C10'
EMPTY = {'ramdiff': -1}


def run(tier):
    rep = Report(PID, tier)
    wd = workdir('c10')
    sd = seed()
    r = tlc.model_check('run', 'SaveResume_mc', 'SaveResume_mc.cfg', timeout=1800, coverage=False)
    rep.add_tlc(r, 'SaveResume_mc')
    rep.model_violation(r, 'SaveResume_mc')
    cbuild.build()
    per = 26 if tier == 'quick' else 400
    with mp.get_context('fork').Pool(16) as pool:
        parts = pool.map(rundrv.legs, [(sd * 71 + k, per, wd) for k in range(16)])
    recs = [x for p in parts for x in p]
    cases, owners = [], []
    fields = ('regs', 'iff', 'im', 'border', 'tpos', 'o7ffd', 'offfd', 'ay', 'banks', 'memptr')
    for rec in recs:
        if rec['err']:
            c = {'err': rec['err'], 'fmt': rec['fmt'], 'cmio': 0, 'ramdiff': -1}
            for f in fields:
                c['a_' + f] = c['b_' + f] = 0
            cases.append(c); owners.append((rec, None))
            continue
        for sp in rec['splits']:
            c = {'err': sp['err'], 'fmt': rec['fmt'], 'cmio': 1 if '-c' in rec['opts'] else 0, 'ramdiff': sp.get('ramdiff', -1)}
            for f in fields:
                c['a_' + f] = sp.get('a_' + f, 0)
                c['b_' + f] = sp.get('b_' + f, 0)
            cases.append(c); owners.append((rec, sp))
    log('C10: %d runs, %d split points' % (len(recs), len(cases)))
    rs, fails = tlc.judge('run', 'ResumeCases', 'ResumeCases.cfg', cases, casefile=os.path.join(wd, 'resume.json'))
    rep.add_tlc(rs, 'ResumeCases', traces=len(cases))
    for rec, sp in owners:
        rep.count((rec['key'], tuple(rec['opts']), rec.get('total'), sp['n1'] if sp else 0, rec['t0']))
    rep.evaluations = len(cases) * 3
    rep.sample({k: recs[0][k] for k in ('key', 'opts', 'fmt', 't0', 'kind')})
    for i, clause in fails:
        rec, sp = owners[i]
        big = rec['t0'] >= 2 ** 24 - 400
        key = 'resume:%s:%s%s' % (rec['fmt'], clause, ':tstates-near-2^24' if big and rec['fmt'] == 'szx' else '')
        if sp and sp.get('mid_halt') and '-c' in rec['opts'] and clause == 'frame-position':
            key = 'resume:saved-inside-halt:contended:frame-position'
        rep.violation(key, 'trace.py %s from %s (start T=%d): %d instructions at once vs %s + snapshot(%s) + rest: %s differs; A=%s B=%s'
                      % (' '.join(rec['opts']), rec['key'], rec['t0'], rec.get('total', 0), sp and sp['n1'], rec['fmt'], clause,
                         sp and {k: v for k, v in sp.items() if k.startswith('a_') and k != 'a_banks' and k != 'a_ay'},
                         sp and {k: v for k, v in sp.items() if k.startswith('b_') and k != 'b_banks' and k != 'b_ay'}),
                      {'rec': {k: v for k, v in rec.items() if k != 'splits'}, 'split': sp})
    rep.rule = ('generated programs (EI/HALT/IM 2, prefix chains, repeating block instructions, loops) in start snapshots (48K/128K, '
                'z80/szx, T anywhere incl. just below frame end and just below 2^24) x sampled split points x {szx,z80} x '
                '{plain,-c} x {C,--python}; distinct_nontrivial = distinct (program class, options, length, split, start T)')
    rmworkdir('c10')
    return rep.finish()
