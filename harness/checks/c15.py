"""C15 - image macros and sna2img render pixel-exact, valid PNG/APNG files (DESIGN §4 C15)."""
import json
import multiprocessing as mp
import os
import threading

from ..lib import cbuild, tlc
from ..lib.common import workdir, rmworkdir, seed, log, MachineryError
from ..lib.report import Report
from ..drivers import pngdrv

PID = 'C15'
NW = 16
# per worker: systematic, random, multi-frame API cases; skool2html batches x macros per batch; sna2img runs
SIZES = {'quick': (40, 24, 6, 1, 9, 5), 'thorough': (400, 500, 80, 6, 18, 60)}


def _judge(rep, cases, wd, tag):
    """TLC judges `cases`; returns number of violations added."""
    nv = 0
    slim = [{k: c[k] for k in ('frames', 'tindex', 'alpha', 'pngalpha', 'anim', 'obs')} for c in cases]
    # batches bounded by JSON size
    batches, cur, size = [], [], 0
    for i, c in enumerate(slim):
        n = sum(len(f['rows']) * (len(f['rows'][0]) if f['rows'] else 0) for f in c['obs']['frames']) * 2 + 4000
        if cur and size + n > 30000000:
            batches.append(cur)
            cur, size = [], 0
        cur.append(i)
        size += n
    if cur:
        batches.append(cur)
    for bi, idxs in enumerate(batches):
        part = [slim[i] for i in idxs]
        r, fails = tlc.judge('png', 'PngCases', 'PngCases.cfg', part, casefile=os.path.join(wd, '%s%d.json' % (tag, bi)))
        rep.add_tlc(r, 'PngCases', traces=len(part))
        for j, clause in fails:
            c = cases[idxs[j]]
            if clause.startswith('machinery'):
                raise MachineryError('PngCases: %s for %s' % (clause, c['key']))
            short = ':'.join(clause.split(':')[:2])
            if rep.violation('png:%s:%s' % (c['vkey'], short),
                             '%s via %s: clause %s%s' % (c['key'], c['route'], clause,
                                                          ' (macro: %s)' % c['macro'] if c.get('macro') else ''),
                             {k: c[k] for k in c if k != 'obs'} | {'clause': clause, 'obs_head': {k: c['obs'][k] for k in ('chunks', 'ihdr', 'pal', 'trns')}}):
                nv += 1
    return nv


def _vacuity(cases, stats, rep):
    enc = {}
    twin = {}
    for s in stats:
        for k, v in s['enc'].items():
            enc[k] = enc.get(k, 0) + v
        for k, v in s['generic_twin'].items():
            twin[k] = twin.get(k, 0) + v
    missing = [e for e in pngdrv.SPECIALISED + ('bd_any',) if not enc.get(e)]
    if missing:
        raise MachineryError('C15 generator never reached encoder(s) %s (reached: %s)' % (missing, enc))
    missing = [e for e in pngdrv.SPECIALISED if not twin.get(e)]
    if missing:
        raise MachineryError('C15: no generic twin for encoder(s) %s' % missing)
    attrs = set()
    pal = {}
    sides = {k: set() for k in 'LRTB'}
    combos = set()
    thin = set()
    routes = {}
    flashf = nofl = multi = trns = 0
    scales, flips, rots, masks = set(), set(), set(), set()
    for c in cases:
        routes[c['route']] = routes.get(c['route'], 0) + 1
        if c.get('exc'):
            continue
        o = c['obs']
        n = len(o['pal'])
        cls = '1' if n == 1 else '2' if n == 2 else '3-4' if n <= 4 else '5-16'
        has_t = bool(o['trns']) and o['trns'][0] != 255
        pal[(cls, has_t)] = pal.get((cls, has_t), 0) + 1
        trns += has_t
        if len(c['frames']) > 1:
            multi += 1
        elif len(o['frames']) == 2:
            flashf += 1
        for f in c['frames']:
            for row in f['udgs']:
                for t in row:
                    attrs.add(t['a'])
            cc = pngdrv.crop_class(f)
            for k in 'LRTB':
                sides[k].add(cc[k])
            if cc['vw'] == 1:
                thin.add('w')
            if cc['vh'] == 1:
                thin.add('h')
            combos |= pngdrv.um_combos(f)
            scales.add(f['scale'])
            flips.add(f['flip'])
            rots.add(f['rot'])
            masks.add((f['mask'], any(t['m'] for row in f['udgs'] for t in row), all(t['m'] for row in f['udgs'] for t in row)))
    far = sum(1 for c in cases if not c.get('exc') and len(c['obs']['frames']) == 2
              and pngdrv.exc_class(c) == 'flash+cropped+origin>size')
    rep.extra['flash_frames_with_crop_origin_beyond_size'] = far
    if not far:
        raise MachineryError('vacuous C15 run: no flashing cropped frame with crop origin beyond its size')
    need_pal = [(cl, t) for cl in ('1', '2', '3-4', '5-16') for t in (False, True)]
    problems = []
    if len(attrs) != 256:
        problems.append('only %d attribute values' % len(attrs))
    for k in need_pal:
        if not pal.get(k):
            problems.append('no palette class %s' % (k,))
    for k in 'LRTB':
        if not set(range(0, 8)) <= sides[k]:
            problems.append('crop offsets on side %s: %s' % (k, sorted(sides[k])))
    if thin != {'w', 'h'}:
        problems.append('1-pixel crops: %s' % thin)
    for mt in (1, 2):
        for u in (0, 1):
            for m in (0, 1):
                if (mt, u, m) not in combos:
                    problems.append('mask type %d never saw graphic bit %d with mask bit %d' % (mt, u, m))
    if flips != {0, 1, 2, 3} or rots != {0, 1, 2, 3}:
        problems.append('flip %s rotate %s' % (flips, rots))
    for mt in (0, 1, 2):
        if (mt, False, False) not in masks:
            problems.append('mask type %d without mask bytes' % mt)
    if not any(m[0] and m[1] and not m[2] for m in masks):
        problems.append('no masked frame with mask bytes on some tiles only')
    if not flashf or not multi:
        problems.append('flash frames %d, multi-frame %d' % (flashf, multi))
    for rt in ('api', 'api-generic', 'skool2html', 'sna2img'):
        if not routes.get(rt):
            problems.append('route %s not driven' % rt)
    if problems:
        raise MachineryError('vacuous C15 run: ' + '; '.join(problems))
    rep.extra['encoders_reached'] = enc
    rep.extra['generic_twins'] = twin
    rep.extra['palette_classes'] = {'%s%s' % (k[0], '+trans' if k[1] else ''): v for k, v in sorted(pal.items())}
    rep.extra['routes'] = routes
    rep.extra['flash_second_frames'] = flashf
    rep.extra['multi_frame_sequences'] = multi
    rep.extra['scales'] = sorted(scales)
    rep.extra['macros'] = {k: sum(s['macro'].get(k, 0) for s in stats) for k in ('udg', 'udgarray', 'font', 'scr', 'frames')}
    rep.extra['sna2img'] = {k: sum(s['sna2img'].get(k, 0) for s in stats) for k in ('scr', 'udg', 'udgarray', 'font', 'scrmacro')}


def run(tier):
    rep = Report(PID, tier)
    wd = workdir('c15')
    sd = seed()
    cbuild.repo_only()
    # pattern A in the background while the real code is driven
    mc = {}

    def _mc():
        try:
            mc['r'] = tlc.model_check('png', 'Png', 'Png_mc.cfg', coverage=False, workers=4)
        except BaseException as e:          # re-raised in the main thread
            mc['e'] = e
    th = threading.Thread(target=_mc)
    th.start()
    sizes = SIZES[tier]
    jobs = [(sd, wi, tier, wd) + sizes for wi in range(NW)]
    with mp.get_context('fork').Pool(NW) as pool:
        parts = pool.map(pngdrv.work, jobs)
    cases = [c for p, _ in parts for c in p]
    stats = [s for _, s in parts]
    log('C15: %d image files (%s)' % (len(cases), rep.timer.s()))
    for c in cases:
        if c.get('exc'):
            rep.violation('png:exception:%s' % c['exckey'], '%s via %s raised %s%s'
                          % (c['key'], c['route'], c['exc'], ' (macro: %s)' % c['macro'] if c.get('macro') else ''),
                          {k: c[k] for k in c if k != 'obs'})
    good = [c for c in cases if not c.get('exc')]
    _judge(rep, good, wd, 'cases')
    th.join()
    if 'e' in mc:
        raise mc['e']
    r = mc['r']
    rep.add_tlc(r, 'Png_mc')
    rep.model_violation(r, 'Png_mc')
    if r.distinct < 3000:
        raise MachineryError('Png_mc explored only %d states' % r.distinct)
    _vacuity(cases, stats, rep)
    for c in good:
        rep.count((c['route'], tuple(c['enc']), len(c['obs']['pal']), c['key']))
    for c in good[:2] + [c for c in good if c['route'] == 'skool2html'][:2] + [c for c in good if c['route'] == 'sna2img'][:2]:
        rep.sample({k: c[k] for k in c if k not in ('obs', 'frames')} | {'ihdr': c['obs']['ihdr'], 'chunks': [x['t'] for x in c['obs']['chunks']]})
    rep.rule = ('tile arrays x attributes (all 256 cycled) x data/mask patterns {00,FF,A5,5A,random} x scale x crop classes '
                '(aligned, 1..7 px off at each side, 1-px, oversize) x mask 0..2 (with/without mask bytes per tile) x flip x rotate x '
                'tindex/alpha/PNGAlpha x animation on/off x multi-frame sequences; rendered by ImageWriter.write_image (every '
                'specialised encoder + the same frames forced through _build_image_data_bd_any), by #UDG/#UDGARRAY/#FONT/#SCR/#FRAMES '
                'via skool2html and by sna2img.main; distinct = (route, encoders, palette size, scale/mask/flip/rotate/crop class)')
    rep.assumptions = ['CRC-32, inflate, unfiltering and index unpacking are done by the harness reader (zlib); TLC sees crc_ok / '
                       'zlib_ok facts and the index matrices',
                       'default [Colours]; APNG composition modelled for dispose=none/blend=source only (anything else is reported)',
                       'flip is applied before rotate (documentation is silent on the order)']
    rmworkdir('c15')
    return rep.finish()


def replay(path):
    """Re-render the recorded abstract input through the API and judge it again."""
    with open(path) as f:
        rec = json.load(f)
    c = rec['replay']
    cbuild.repo_only()
    rep = Report(PID, 'replay')
    wd = workdir('c15r')
    if c.get('route') not in ('api', 'api-generic'):
        log('replaying through the API the abstract input of a %s case' % c.get('route'))
    for fr in c['frames']:
        fr.setdefault('inv', 0)
    c.setdefault('vkey', 'replay')
    for generic in (False, True):
        try:
            png, used = pngdrv.run_api(c, generic=generic)
        except Exception as e:
            rep.violation('png:exception:%s:%s' % (type(e).__name__, pngdrv.exc_class(c)), 'raised %s: %s' % (type(e).__name__, e), c)
            continue
        case = dict(c, obs=pngdrv.project(png), enc=used, route='api-generic' if generic else 'api')
        _judge(rep, [case], wd, 'replay')
    rmworkdir('c15r')
    return rep.finish()
