"""E08 (extension) - tap2sna.py's non-simulated snapshot building: the `--ram` operations and friends.

Specification: spec/ramops/RamOps.tla - written from the documentation (commands.rst, man/tap2sna.py.rst, `tap2sna.py --ram help`):
the snapshot being built as a sequential state machine over (memory: "a list of 65536 byte values" on 48K, eight RAM banks on
128K; per-block load positions), one action per `--ram` option in command-line order - load=[+]block[+],start[,length,step,
offset,inc], move=[s:]src,N,[d:]dest, patch=[p:]a,file, poke=[p:]a[-b[-c]],[^+]v, sysvars, call=[path:]module.function - and a
second fold over `--reg`, `--state`, `-s/--start`, `-p/--stack` with the documented defaults (registers 0 except i=63, iy=23610;
border 0, iff 1, im 1, issue2 0, tstates 34943).

  (A) RamOpsMC / RamOps_mc*.cfg: the machine model-checked on a small instance (8 addresses, 2 of them ROM area, banks of 2):
      a poke touches exactly the named cells; move is a block copy also when the areas overlap; a load writes exactly the
      documented number of bytes at the documented addresses modulo the address space and advances the block position; sysvars
      touches only its area; paged operations stay inside their bank / do nothing on 48K; ROM-area writes never reach the snapshot;
      the operations compose in order.  RamOps_neg.cfg (move as an ascending byte-by-byte copy) must be rejected.
  (B) RamCases: every generated command line is run through the REAL skoolkit.tap2sna.main(args) in-process - `--ram load=...`
      switches the simulation off (48K); 128K snapshots come from a two-instruction simulation whose result is the baseline -,
      the written .z80 / .szx file is read back with the independent decoder and TLC compares the whole memory (every cell that
      differs from the baseline), what every `call` function saw, all registers and the hardware state with RamOps!Run.

Verdicts only on what the documentation states.  Undocumented corners (paged operations on 48K, operations crossing a bank end or the
top of memory, '+' prefix on a later stage, an explicit length beyond the end of the block, ",," fields, --start together with
--reg pc, --tape-start renumbering, an unknown block number...) are named by the specification (flags) and counted as drift.
"""
import collections
import os
import random
import threading
import multiprocessing as mp

from ..lib import cbuild, tlc
from ..lib.common import workdir, rmworkdir, seed, log, MachineryError, Timer
from ..lib.report import Report
from ..drivers import ramdrv

PID = 'E08'
# Mismatches on the unchanged tree triaged as genuine defects of skoolkit, reported to the lead. Until the lead records them in
# known_findings.json they print CANDIDATE-FINDING and do not fail the check (VERIF_E08_STRICT=1: they do).
CANDIDATES = {}          # the candidates found while building are recorded in known_findings.json (one repaired, two families open)
STRICT = os.environ.get('VERIF_E08_STRICT') == '1'
FIELDS = ('stop', 'mach', 'sim', 'fmt', 'top', 'base', 'blocks', 'ops', 'opts', 'experr', 'err', 'obs', 'readerr', 'outok', 'omach', 'dflags',
          'regs', 'hw', 'breg', 'bhw')


def chunks(lst, k):
    return [lst[i:i + k] for i in range(0, len(lst), k)]


def fixed_cases():
    """the documentation's own examples and the edges named in the task, always present"""
    def g(n, ops, blocks=None, opts=(), **kw):
        blocks = blocks or [[255] + list(range(1, 40)) + [77], [0, 3] + [65] * 10 + [5, 0, 0, 128, 0, 128, 9], [255, 1, 2, 3, 4, 5, 6, 7, 8, 9]]
        from ..drivers import tapedrv as T
        d = dict(kind='ns48', n=n, mach=48, sim=0, fmt='z80', tfmt='tap', tape=list(b''.join(T.tap_block(b) for b in blocks)), blocks=blocks,
                 ops=ops, opts=list(opts), dflags=[], experr='', sel={}, out='explicit', rs=n)
        d.update(kw)
        return d

    def ld(blk, start, **kw):
        o = dict(k='load', blk=blk, pre=0, suf=0, start=start, len=-1, step=-1, off=-1, inc=-1, empty=0)
        o.update(kw)
        return o
    pk = lambda a, v, b=-1, c=-1, mode=0, p=-1: dict(k='poke', p=p, a=a, b=b, c=c, mode=mode, v=v)
    mv = lambda s, n, d, sp=-1, dp=-1: dict(k='move', sp=sp, src=s, n=n, dp=dp, dest=d)
    out = [
        g(9001, [ld(3, 30000)]),                                                        # --ram load=3,30000
        g(9002, [ld(1, 32768, len=20), ld(1, 0xC000)]),                                  # two stages
        g(9003, [ld(1, 32512), mv(32512, 256, 32768)]),                                  # the move example
        g(9004, [ld(1, 30000), pk(0x6000, 0x10), pk(30000, 85, b=30002, mode=1), pk(40000, 1, b=40004, c=2)]),   # the poke examples
        g(9005, [ld(1, 0x3FFF, pre=1, suf=1)]),                                          # across the ROM edge
        g(9006, [ld(1, 0xFFFE, pre=1, suf=1)], fmt='szx'),                               # wraps past the top
        g(9007, [ld(1, 0xFFF0, len=10, step=5, off=0, inc=0x4000)]),                     # wrap with inc
        g(9008, [ld(1, 0x8000, len=5, step=0)]),                                         # step 0: the last byte wins
        g(9009, [ld(1, 0x8000, len=41)]),                                                # block length
        g(9010, [ld(1, 0x8000, len=42)]),                                                # block length + 1
        g(9011, [ld(1, 0x8000, len=0), ld(1, 0x9000, len=1)]),
        g(9012, [ld(1, 0x8000, step=256, len=8), ld(1, 0x8001, step=255, len=8)]),
        g(9013, [ld(2, 0x4000), dict(k='sysvars')], fmt='szx'),
        g(9014, [ld(1, 0x8000), mv(0x8000, 16, 0x8004), mv(0x8010, 16, 0x800C)]),        # overlapping both ways
        g(9015, [ld(1, 0x8000), mv(0x8000, 8, 0x3FFC), mv(0x3FFC, 8, 0x9000)]),         # through the ROM area
        g(9016, [ld(1, 0xFFF0), mv(0xFFFF, 2, 0x8000)]),                                 # source reaches past the top
        g(9017, [ld(1, 0x8000), mv(0x8000, 4, 0xFFFE)]),                                 # destination reaches past the top
        g(9018, [ld(1, 0x8000)], opts=[dict(k='start', v=0x8000), dict(k='stack', v=0x7FFE)]),
        g(9019, [ld(1, 0x8000)], fmt='szx'),                                             # all defaults, SZX
        g(9020, [ld(1, 0x8000)]),                                                        # all defaults, Z80
        g(9021, [ld(4, 0x8000)]),                                                        # no such block
        g(9022, [ld(1, 0x8000)], out='sna', experr='unsupported-output-format'),
        g(9023, [ld(1, 0x8000)], sel={'sum': 'bad'}, experr='checksum-mismatch'),
        g(9024, [ld(2, 0x8000)], sel={'stop': 3}),                                       # the last block before the stop
        g(9025, [ld(1, 0x8000), ld(3, 0x9000)], sel={'stop': 3}),                        # the tape stops at block 3: it cannot be loaded
        g(9026, [ld(1, 0x8000)], sel={'zip': 1}),
        g(9027, [ld(1, 0x8000)], sel={'zip': 0}, fmt='szx'),
    ]
    s128 = lambda n, ops, **kw: g(n, ops, kind='sim128', mach=128, sim=1, **kw)
    out += [
        s128(9101, [mv(0, 8, 0, sp=3, dp=4)]),                                           # --ram move=3:0,8,4:0 (from blank memory)
        s128(9102, [pk(0, 7, b=7, p=3), mv(0, 8, 0, sp=3, dp=4), pk(0xC000, 1, b=0xC003, mode=2, p=4)], fmt='szx'),
        s128(9103, [dict(k='patch', p=1, a=256, data=[1, 2, 3, 4])]),                     # --ram patch=1:256,patch.bin
        s128(9104, [pk(0xFFFF, 9), pk(0x3FFF, 9, b=0x4000), dict(k='sysvars')], fmt='szx'),
    ]
    return out


def plan(tier, sd):
    r = random.Random(sd * 104729 + 8)
    q = tier == 'quick'
    gens = fixed_cases()
    for i in range(1000 if q else 24000):
        gens.append(ramdrv.gen_case(r, 'ns48', i))
    for i in range(500 if q else 9000):
        gens.append(ramdrv.gen_case(r, 'sim128', i))
    return gens


def drive(gens, wd):
    jobs = [(wd, part) for part in chunks(gens, 40)]
    out = []
    with mp.get_context('fork').Pool(16) as pool:
        it = pool.imap(ramdrv.worker, jobs)
        for _ in range(len(jobs)):
            try:
                out += it.next(timeout=900)
            except mp.TimeoutError:
                pool.terminate()
                raise MachineryError('E08: a driver worker produced nothing for 900 s')
    return out


def judge(rep, recs, wd):
    fails, drift, dfails = collections.defaultdict(list), {}, collections.defaultdict(list)
    notes = collections.Counter()
    step = 4000
    for lo in range(0, len(recs), step):
        part = recs[lo:lo + step]
        slim = [{k: c[k] for k in FIELDS} for c in part]
        r, fl = tlc.judge('ramops', 'RamCases', 'RamCases.cfg', slim, casefile=os.path.join(wd, 'cases%d.json' % lo),
                          env={'JAVA_TOOL_OPTIONS': '-Xss32m'}, timeout=3000)
        rep.add_tlc(r, 'RamCases[%d:%d]' % (lo, lo + len(part)), traces=len(part))
        for i, clause in fl:
            fails[lo + i].append(clause)
        for name, rest in r.notes:
            if name == 'NOTE' and rest:
                notes[rest.partition(', ')[2].strip('"')] += 1
            if name in ('DRIFT', 'DRIFTFAIL') and rest:
                tid, _, what = rest.partition(', ')
                what = what.strip('"')
                if name == 'DRIFT':
                    drift[lo + int(tid) - 1] = what.split('+')
                elif what not in dfails[lo + int(tid) - 1]:
                    dfails[lo + int(tid) - 1].append(what)
    return fails, drift, dfails, notes


def classify(g, rec):
    """generator-side description of a case (for keys and the vacuity guard); no semantics in here"""
    cl = set()
    cl.add('mach:%d' % g['mach'])
    cl.add('fmt:' + g['fmt'])
    cl.add('tape:' + g['tfmt'])
    cl.add('out:' + g['out'])
    for k in g['sel']:
        cl.add('sel:%s' % k + (':%s' % g['sel'][k] if k in ('sum', 'zip') else ''))
    if g['experr']:
        cl.add('experr:' + g['experr'])
    for o in g['ops']:
        k = o['k']
        cl.add('op:' + k)
        if k == 'load':
            cl.add('load:%s%s' % ('+' * o['pre'] + 'N', '+' * o['suf']))
            n = sum(1 for f in ('len', 'step', 'off', 'inc') if o[f] >= 0)
            cl.add('load:fields=%d' % n)
            if o['step'] in (0, 255, 256):
                cl.add('load:step=%d' % o['step'])
            blen = len(g['blocks'][o['blk'] - 1]) if o['blk'] <= len(g['blocks']) else -1
            if o['len'] in (0, 1):
                cl.add('load:len=%d' % o['len'])
            if blen > 0 and o['len'] == blen + 1:
                cl.add('load:len=block+1')
            if blen > 0 and o['len'] == blen:
                cl.add('load:len=block')
            st = o['step'] if o['step'] >= 0 else 1
            ln = o['len'] if o['len'] >= 0 else max(0, blen - 2)
            if blen > 0 and ln > 1 and o['start'] + st * (min(ln, blen) - 1) > 0xFFFF:
                cl.add('load:wrap')
                if o['inc'] > 0:
                    cl.add('load:wrap+inc')
            if o['start'] <= 0x3FFF < o['start'] + max(0, min(ln, blen)) and st == 1:
                cl.add('rom-edge:load')
            if o['off'] > 0:
                cl.add('load:offset')
        elif k == 'poke':
            cl.add('poke:%s%s%s' % ('p:' if o['p'] >= 0 else '', 'a' + ('-b' if o['b'] >= 0 else '') + ('-c' if o['c'] >= 0 else ''), ('', '^', '+')[o['mode']]))
            if o['a'] <= 0x3FFF and o['b'] >= 0x4000 and o['p'] < 0:
                cl.add('rom-edge:poke')
            if o['b'] == 0xFFFF or o['a'] == 0xFFFF:
                cl.add('top-edge:poke')
        elif k == 'move':
            cl.add('move:%s%s' % ('s:' if o['sp'] >= 0 else '', 'd:' if o['dp'] >= 0 else ''))
            if o['n'] > 1 and abs(o['src'] - o['dest']) < o['n'] and o['src'] != o['dest'] and o['sp'] < 0:
                cl.add('move:overlap-%s' % ('up' if o['dest'] > o['src'] else 'down'))
            if o['sp'] < 0 and o['dp'] < 0:
                if o['src'] + o['n'] > 0x10000:
                    cl.add('move-src-past-top')
                if o['dest'] + o['n'] > 0x10000:
                    cl.add('move-dest-past-top')
                if o['dest'] <= 0x3FFF < o['dest'] + o['n']:
                    cl.add('rom-edge:move')
        elif k == 'patch':
            cl.add('patch:%s' % ('p:' if o['p'] >= 0 else 'flat'))
        elif k == 'call':
            cl.add('call:form%d' % o['form'])
    for o in g['opts']:
        cl.add('opt:%s' % (o['k'] if o['k'] != 'state' else 'state:' + o['name']))
        if o['k'] == 'reg':
            cl.add('reg:' + o['name'])
    if not g['opts']:
        cl.add('opt:none')
    return cl


def sets_reg(g, name):
    """does some option of the case name this register view field (directly, as a half or through --start/--stack)?"""
    base = name.replace('2', '')
    names = {base, '^' + base} if name.endswith('2') else {name}
    for n in list(names):
        if len(n.lstrip('^')) == 2 and n.lstrip('^') in ('bc', 'de', 'hl'):
            p = '^' if n.startswith('^') else ''
            names |= {p + n.lstrip('^')[0], p + n.lstrip('^')[1]}
    for o in g['opts']:
        if o['k'] == 'reg' and o['name'] in names:
            return True
        if (o['k'] == 'start' and name == 'pc') or (o['k'] == 'stack' and name == 'sp'):
            return True
    return False


def corrupt(recs):
    """binding demonstration: VERIF_E08_CORRUPT=mem|frame|reg|state|call falsifies one observed field of the first suitable case; the
    check must then report a violation with the matching clause"""
    kind = os.environ.get('VERIF_E08_CORRUPT')
    if not kind:
        return
    for rec in recs:
        if rec['err'] or rec['experr'] or rec['readerr'] or not rec['obs'] or rec['dflags'] or rec['fmt'] != 'z80' or rec['sim']:
            continue
        if any(o['k'] == 'load' and (o['len'] >= 0 or o['pre']) for o in rec['ops']) or any(o['k'] in ('sysvars', 'move') or o.get('p', -1) >= 0 for o in rec['ops']):
            continue
        if kind == 'mem':
            rec['obs'][0][1] ^= 1
        elif kind == 'frame':
            rec['obs'] = rec['obs'] + [[0xF123 if all(c[0] != 0xF123 for c in rec['obs']) else 0xF124, 1]]
        elif kind == 'reg':
            rec['regs']['hl'] ^= 0x100
        elif kind == 'state':
            rec['hw']['border'] ^= 1
        elif kind == 'call':
            cs = [o for o in rec['ops'] if o['k'] == 'call' and o['reads']]
            if not cs:
                continue
            cs[0]['reads'][0][1] ^= 2
        else:
            raise MachineryError('VERIF_E08_CORRUPT=%s?' % kind)
        log('E08: corrupted (%s) the observation of %s' % (kind, rec['key']))
        return
    raise MachineryError('VERIF_E08_CORRUPT: no suitable case')


def small(x, limit=1500):
    s = str(x)
    return s if len(s) < limit else s[:limit] + '...'


def run(tier):
    rep = Report(PID, tier)
    timer = Timer()
    wd = workdir('e08/run')
    sd = seed()
    cbuild.build()
    ramdrv.prepare(wd)

    box = {}

    cfgs = ['RamOps_mc1.cfg', 'RamOps_mc128_1.cfg', 'RamOps_mc2.cfg', 'RamOps_mc128_2.cfg'] + (['RamOps_mc3.cfg'] if tier != 'quick' else [])

    def mc(cfg):
        try:
            if cfg == 'RamOps_neg.cfg':
                box[cfg] = tlc.run(os.path.join(tlc.SPEC, 'ramops'), 'RamOpsMC', cfg, workers=2, timeout=600, tag='RamOpsMC-neg')
            else:
                box[cfg] = tlc.model_check('ramops', 'RamOpsMC', cfg, timeout=1800, workers=3)
        except BaseException as e:   # noqa: B902
            box['exc'] = e
    ths = [threading.Thread(target=mc, args=(c,)) for c in cfgs + ['RamOps_neg.cfg']]
    gens = plan(tier, sd)
    res = drive(gens, wd)
    for th in ths:          # the model checking runs while TLC judges the cases
        th.start()
    log('E08: %d command lines run in %.1fs' % (len(res), timer.s()))
    recs = [rec for _, rec, _ in res]
    corrupt(recs)
    fails, drift, dfails, notes = judge(rep, recs, wd)
    log('E08: judged after %.1fs' % timer.s())

    stats = collections.Counter()
    cand, cand_ex = collections.Counter(), {}
    driftkinds = collections.Counter()
    for i, (g, rec, args) in enumerate(res):
        cl = classify(g, rec)
        for c in cl:
            stats[c] += 1
        stats['err:' + ('yes' if rec['err'] else 'no')] += 1
        rep.count((g['kind'], g['fmt'], tuple(sorted(c for c in cl if c.startswith(('op:', 'load:', 'poke:', 'move:'))))))
        if i in drift:
            for f in drift[i]:
                driftkinds[f] += 1
            for c in dfails.get(i, ()):
                driftkinds['%s!%s' % ('+'.join(drift[i]), c)] += 1
            stats['corner-cases'] += 1
            if STRICT and dfails.get(i):
                rep.violation('strict:%s:%s' % ('+'.join(drift[i]), dfails[i][0]), 'drift counted as violation (VERIF_E08_STRICT): %s' % small(args),
                              dict(gen=g, args=args, clauses=dfails[i]))
            continue
        stats['judged-plain'] += 1
        for clause in fails.get(i, ()):
            if clause.startswith('reg-'):
                name = clause[4:]
                key = ('default:%s:%s' % (g['fmt'], clause)) if not g['sim'] and not sets_reg(g, name) else 'reg:%s:%s:%s' % (g['kind'], g['fmt'], name)
            elif clause.startswith('state-'):
                key = 'state:%s:%s:%s' % (g['kind'], g['fmt'], clause[6:])
            elif 'move-src-past-top' in cl and (clause in ('snapshot-unreadable', 'mem-frame', 'mem-value') or
                                                (clause == 'tool-error' and 'index out of range' in rec['err'])):
                key = 'move-src-past-top:%s' % clause
            elif clause.startswith('mem-') or clause.startswith('call-'):
                kinds = sorted(set(o['k'] for o in g['ops']))
                key = '%s:%s:%s' % (g['kind'], clause, '+'.join(kinds) if len(kinds) <= 2 else 'mixed')
            elif g['sim'] and clause == 'tool-error' and "'slice' and 'int'" in rec['err'] and cl & {'op:sysvars', 'move:', 'move:d:', 'patch:flat'}:
                key = 'sim128:slice-assign:tool-error'
            else:
                key = '%s:%s' % (g['kind'], clause)
            what = 'tap2sna.py %s: %s (error=%r, read error=%r)' % (small(' '.join(args), 900), clause, rec['err'], rec['readerr'])
            if key in CANDIDATES and not STRICT and key not in rep.known:
                cand[key] += 1
                cand_ex.setdefault(key, what)
                continue
            rep.violation(key, what, dict(gen=g, args=args, clause=clause, observed={k: small(rec[k], 600) for k in ('err', 'readerr', 'omach', 'regs', 'hw', 'obs')}))

    for th in ths:
        th.join()
    if 'exc' in box:
        raise box['exc']
    total = 0
    for cfg, r in [(c, box[c]) for c in cfgs]:
        rep.add_tlc(r, 'RamOpsMC/' + cfg)
        rep.model_violation(r, 'RamOpsMC/' + cfg)
        total += r.distinct
    if not rep.violations and total < 40000:
        raise MachineryError('RamOpsMC explored only %d states' % total)
    rn = box['RamOps_neg.cfg']
    rep.add_tlc(rn, 'RamOpsMC-neg(expected failure)')
    if not any('StepOK' in v for v in rn.violated):
        raise MachineryError('RamOps_neg: a byte-by-byte move is no longer rejected (vacuous MoveCopy?)\n' + rn.out[-1500:])

    # ---- vacuity
    need = ['mach:48', 'mach:128', 'fmt:z80', 'fmt:szx', 'tape:tap', 'tape:tzx', 'tape:pzx', 'out:explicit', 'out:dir', 'out:dir-ini', 'out:sna',
            'sel:sum:good', 'sel:sum:bad', 'sel:zip:0', 'sel:zip:1', 'sel:stop', 'experr:checksum-mismatch', 'experr:unsupported-output-format',
            'op:load', 'op:poke', 'op:move', 'op:patch', 'op:sysvars', 'op:call', 'load:N', 'load:+N', 'load:N+', 'load:+N+',
            'load:fields=0', 'load:fields=1', 'load:fields=2', 'load:fields=3', 'load:fields=4', 'load:step=0', 'load:step=255', 'load:step=256',
            'load:len=0', 'load:len=1', 'load:len=block', 'load:len=block+1', 'load:wrap', 'load:wrap+inc', 'load:offset',
            'rom-edge:load', 'rom-edge:poke', 'rom-edge:move', 'top-edge:poke',
            'poke:a', 'poke:a-b', 'poke:a-b-c', 'poke:a^', 'poke:a-b^', 'poke:a-b+', 'poke:p:a', 'poke:p:a-b-c',
            'move:', 'move:s:d:', 'move:overlap-up', 'move:overlap-down', 'move-src-past-top', 'move-dest-past-top', 'patch:flat', 'patch:p:',
            'call:form0', 'call:form1', 'opt:none', 'opt:reg', 'opt:start', 'opt:stack'] + \
           ['opt:state:' + n for n in ('border', 'iff', 'im', 'issue2', 'tstates', '7ffd', 'fffd', 'ay', 'fe')] + ['judged-plain', 'corner-cases', 'err:yes']
    empty = [k for k in need if not stats[k]]
    if empty and not rep.violations:
        raise MachineryError('E08: vacuous classes: %s' % empty)
    plain128 = sum(1 for i, (g, _, _) in enumerate(res) if g['sim'] and i not in drift)
    if not rep.violations and (stats['judged-plain'] < len(res) // 3 or plain128 < 20):
        raise MachineryError('E08: only %d of %d cases (%d of them 128K) are judged without a corner flag' % (stats['judged-plain'], len(res), plain128))

    for g, rec, args in res[:2] + res[-2:]:
        rep.sample(dict(args=small(' '.join(args), 500), observed_cells=len(rec['obs']), err=rec['err']))
    rep.drift = sum(1 for i in drift if dfails.get(i))
    rep.extra.update(generated={k: v for k, v in sorted(stats.items()) if not k.startswith('reg:')}, corner_flags=dict(driftkinds.most_common(60)),
                     corner_cases=len(drift), corner_cases_disagreeing=rep.drift, notes=dict(notes))
    for key, n in sorted(cand.items()):
        print('CANDIDATE-FINDING: property=%s %s (x%d): %s' % (PID, key, n, CANDIDATES[key][:400]))
    rep.extra['candidate_findings'] = {k: {'count': n, 'what': CANDIDATES[k], 'example': cand_ex[k][:900]} for k, n in cand.items()}
    rep.rule = ('random tapes (TAP, TZX with interleaved non-data blocks, PZX; zip archives) and random option lists: 1-8 --ram operations around three '
                'hot addresses per case (edges 0x3FFF/0x4000/0xFFFF/23552/23754, lengths 0/1/block/block+1, steps 0/255/256, wraps with inc, overlapping '
                'moves, paged forms on 128K), --reg/--state/--start/--stack interleaved in random order, both output formats, decimal and 0x numbers; '
                'plus the examples of the documentation. distinct_nontrivial = distinct (mode, format, set of operation forms)')
    rep.assumptions = [
        'memory never loaded is 0 when nothing was simulated (blank memory); the ROM area of the working list has unknown contents until an operation writes it',
        '128K cases start from a two-instruction simulation (-c machine=128 -c load=PC=0x00ED --start 0x00EF); the same command line without the options under '
        'test is the baseline; unpaged addresses >= 0xC000 refer to the RAM bank the simulation has paged in',
        'a paged address is taken modulo 16384 (the documentation\'s examples use 0-16383)',
        'block numbers are the ordinals of tapinfo.py\'s listing (TZX: every block after the header; PZX: the PZXT header is block 1)',
        'the sentence "By default, tap2sna.py loads bytes from every data block on the tape, using the start address given in the corresponding header" of '
        '`--ram help` describes no behaviour of this version (without --ram load the tape is loaded by simulation) and is not specified',
        'sysvars: only the values every 48K Spectrum has after start-up (manual ch. 25) are checked, the rest of 23552-23754 may hold anything',
        'snapshot files are decoded by the independent reader harness/drivers/snapfile.py (trusted projection, checked by C09)',
    ]
    rmworkdir('e08/run')
    return rep.finish()


def replay(path):
    """./check E08 --replay replays/E08-n.json : build the recorded tape and command line again, run the tap2sna.py of the current tree
    and let RamCases judge the fresh observation."""
    from ..drivers import replaylib
    d, rp = replaylib.load(path, PID)
    replaylib.need(rp, path, 'gen')
    wd = workdir('e08/replay')
    cbuild.build()
    ramdrv.prepare(wd)
    rep = Report(PID, 'replay')
    found = []
    try:
        g = rp['gen']
        rec, args = ramdrv.run_case(g, wd)
        print('  tap2sna.py %s' % small(' '.join(args), 900))
        print('  error=%r read error=%r cells differing from the baseline: %d' % (rec['err'], rec['readerr'], len(rec['obs'])))
        fails, drift, dfails, notes = judge(rep, [rec], wd)
        found = ['%s: %s' % (rec['key'], c) for c in fails.get(0, ())]
        if drift:
            print('  corner flags: %s disagreeing on: %s' % (drift.get(0), dfails.get(0)))
    finally:
        rmworkdir('e08/replay')
    return replaylib.verdict(PID, path, found)
