"""C05 - the simulators implement documented Z80 instruction semantics (DESIGN §4 C05)."""
import multiprocessing as mp
import os

from ..lib import cbuild, tlc
from ..lib.common import workdir, rmworkdir, seed, log
from ..lib.report import Report
from ..drivers import simdrv

PID = 'C05'


def step_cases(variants, sd, procs=16):
    cbuild.build()
    n = len(simdrv.slots())
    chunks = [(sd * 1000 + k, list(range(k, n, procs)), variants) for k in range(procs)]
    with mp.get_context('fork').Pool(procs) as pool:
        parts = pool.map(simdrv.gen_and_run, chunks)
    return [c for p in parts for c in p]


def judge_steps(rep, cases, wd, mode='c05', batch=40000):
    allfails = []
    for b in range(0, len(cases), batch):
        part = cases[b:b + batch]
        r, fails = tlc.judge('z80', 'StepCases', 'StepCases.cfg', part, casefile=os.path.join(wd, 'steps.json'),
                             env={'MODE': mode})
        rep.add_tlc(r, 'StepCases[%d:%d]' % (b, b + len(part)), traces=len(part))
        allfails += [(b + i, clause) for i, clause in fails]
    return allfails


def run(tier):
    rep = Report(PID, tier)
    wd = workdir('c05')
    sd = seed()
    variants = 12 if tier == 'quick' else 120
    cases = step_cases(variants, sd)
    log('C05: %d step cases executed on 4 implementations' % len(cases))
    fails = judge_steps(rep, cases, wd)
    for c in cases:
        rep.count(c['key'].split('/')[0])
    rep.evaluations = len(cases) * 4
    rep.sample({k: cases[0][k] for k in ('key', 'r', 'ov', 'inv')})
    rep.sample({'obs0': cases[0]['obs'][0]})
    for i, clause in fails:
        c = cases[i]
        impl, _, cl = clause.partition(':')
        rep.violation('step:%s:%s:%s' % (c['key'].split('/')[0], impl, cl),
                      'single step %s on %s: clause %s fails' % (c['key'], impl, cl), c)
    rep.rule = ('one case = one opcode slot x boundary-biased random register/operand/placement values, executed on '
                'py/c/pycm/ccm simulators and judged by Z80!Step in TLC; distinct_nontrivial = distinct opcode slots covered')
    rep.assumptions = ['Z80.tla transcribes the Zilog manual + Undocumented Z80 Documented; flag bits listed in Eff.mask only']
    rmworkdir('c05')
    return rep.finish()
