"""C05 - the simulators implement documented Z80 instruction semantics (DESIGN §4 C05)."""
import multiprocessing as mp
import os

from ..lib import cbuild, tlc
from ..lib.common import workdir, rmworkdir, seed, log, MachineryError
from ..lib.report import Report
from ..drivers import simdrv, tabledrv, replaylib

PID = 'C05'


def step_cases(variants, sd, procs=16):
    cbuild.build()
    n = len(simdrv.slots())
    chunks = [(sd * 1000 + k, list(range(k, n, procs)), variants) for k in range(procs)]
    v128 = max(2, variants // 4)
    chunks128 = [(sd * 1000 + 500 + k, list(range(k, n, procs)), v128) for k in range(procs)]
    with mp.get_context('fork').Pool(procs) as pool:
        parts128 = pool.map_async(simdrv.gen_and_run128, chunks128)
        parts = pool.map(simdrv.gen_and_run, chunks)
        parts128 = parts128.get()
    return [c for p in parts for c in p] + [c for p in parts128 for c in p] + simdrv.edge_cases(sd)


def judge_steps(rep, cases, wd, mode='c05', batch=40000):
    allfails = []
    for b in range(0, len(cases), batch):
        part = cases[b:b + batch]
        r, fails = tlc.judge('z80', 'StepCases', 'StepCases.cfg', part, casefile=os.path.join(wd, 'steps.json'),
                             env={'MODE': mode})
        rep.add_tlc(r, 'StepCases[%d:%d]' % (b, b + len(part)), traces=len(part))
        allfails += [(b + i, clause) for i, clause in fails]
    return allfails


def table_dumps(names=None):
    """{name: [(impl label, data)]} with identical dumps merged (labels joined)."""
    cbuild.build()
    names = names or sorted(tabledrv.EXEC)
    tasks = [(im, n, 1, 0) for n in names for im in ('py', 'c', 'pycm', 'ccm')]
    with mp.get_context('fork').Pool(16) as pool:
        res = pool.map(tabledrv.exec_table, tasks, chunksize=1)
    cbuild.preload()
    st = tabledrv.simtables_dump()
    by = {}
    for im, n, data in res:
        by.setdefault(n, []).append((im, data))
    for n, data in st.items():
        by.setdefault(n, []).append(('simtables', data))
    merged = {}
    for n, lst in by.items():
        groups = []
        for im, data in lst:
            for g in groups:
                if g[1] == data:
                    g[0].append(im)
                    break
            else:
                groups.append(([im], data))
        merged[n] = [('+'.join(g[0]), g[1]) for g in groups]
    return merged


def judge_tables(rep, merged, wd):
    tables = []
    for n in sorted(merged):
        for label, data in merged[n]:
            tables.append({'name': n, 'impls': label, 'n': len(data), 'data': data})
    path = os.path.join(wd, 'tables.json')
    import json
    with open(path, 'w') as f:
        json.dump(tables, f, separators=(',', ':'))
    r = tlc.run(os.path.join(tlc.SPEC, 'z80'), 'TableCases', 'TableCases.cfg', env={'TABLES': path}, tag='TableCases',
                timeout=3000, heap='16g')
    tlc.check_machinery(r, 'TableCases')
    total = sum(t['n'] for t in tables)
    if r.distinct != 2 * total:
        raise tlc.MachineryError('TableCases: expected %d states, got %d\n%s' % (2 * total, r.distinct, r.out[-2000:]))
    rep.add_tlc(r, 'TableCases', traces=len(tables))
    nimpl = sum(len(lbl.split('+')) for v in merged.values() for lbl, _ in v)
    rep.extra['table_entries_enumerated_by_tlc'] = total
    rep.extra['table_dumps'] = nimpl
    rep.extra['table_dumps_distinct'] = len(tables)
    for code, name in r.fails:
        k, i = code // 1000000 - 1, code % 1000000
        t = tables[k]
        rep.violation('table:%s:%s:%d' % (t['name'], t['impls'], i),
                      'table %s of %s: entry %d = %d differs from the specification' % (t['name'], t['impls'], i, t['data'][i]),
                      {'table': t['name'], 'impls': t['impls'], 'index': i, 'value': t['data'][i]})
    return total


def run(tier):
    rep = Report(PID, tier)
    wd = workdir('c05')
    sd = seed()
    variants = 12 if tier == 'quick' else 120
    cases = step_cases(variants, sd)
    log('C05: %d step cases executed on 4 implementations' % len(cases))
    fails = judge_steps(rep, cases, wd)
    for c in cases:
        rep.count(c['key'].split('/')[0])
    rep.evaluations = len(cases) * 4
    rep.sample({k: cases[0][k] for k in ('key', 'r', 'ov', 'inv')})
    rep.sample({'obs0': cases[0]['obs'][0]})
    for i, clause in fails:
        c = cases[i]
        impl, _, cl = clause.partition(':')
        rep.violation('step:%s:%s:%s' % (c['key'].split('/')[0], impl, cl),
                      'single step %s on %s: clause %s fails' % (c['key'], impl, cl), c)
    total = judge_tables(rep, table_dumps(), wd)
    rep.sample({'table': 'ADC', 'index_layout': '(c,a,v)', 'entries': 131072})
    rep.rule = ('one case = one opcode slot x boundary-biased random register/operand/placement values, executed on '
                'py/c/pycm/ccm simulators and judged by Z80!Step in TLC; distinct_nontrivial = distinct opcode slots covered')
    rep.assumptions = ['Z80.tla transcribes the Zilog manual + Undocumented Z80 Documented; flag bits listed in Eff.mask only']
    rmworkdir('c05')
    return rep.finish()


def rerun_step(rp, path):
    """A recorded single-step case (opcode bytes, registers, port value, machine) executed again on the four simulators of the
    current tree -> fresh case for StepCases.  (Also used by the replays of C07 and C08, which judge the same cases.)"""
    replaylib.need(rp, path, 'key', 'r', 'ov', 'inv')
    c = {k: rp[k] for k in ('key', 'r', 'ov', 'inv')}
    c['frame'], c['ia'] = rp.get('frame', 69888), rp.get('ia', 32)
    cbuild.preload()
    if '/128:' in c['key']:
        try:
            page, rom = [int(x) for x in c['key'].split('/128:')[1].split(':')[:2]]
        except ValueError:
            raise MachineryError('unusable replay file %s: key %r does not name the 128K configuration' % (path, c['key']))
        c['obs'] = [im.run_case(c) for im in simdrv.impls128(page, rom)]
    else:
        simdrv.run_cases([c])
    return c


def replay(path):
    """./check C05 --replay replays/C05-n.json : the recorded step on the four simulators again (or the recorded table dumped
    again from all implementations), judged by StepCases / TableCases."""
    d, rp = replaylib.load(path, PID)
    wd = workdir('replay-c05')
    rep = Report(PID, 'replay')          # only collects what the judges say; never finished (no evidence written)
    found = []
    if 'table' in rp:
        # SZ53P / PARITY exist in skoolkit.simtables only (no instruction to dump them through)
        merged = table_dumps([rp['table']] if rp['table'] in tabledrv.EXEC else ['NEG'])
        if rp['table'] not in merged:
            raise MachineryError('unusable replay file %s: unknown table %r' % (path, rp['table']))
        judge_tables(rep, {rp['table']: merged[rp['table']]}, wd)
        found = ['%s: %s' % (k, w) for k, w, _ in rep.violations]
    else:
        c = rerun_step(rp, path)
        for _, clause in judge_steps(rep, [c], wd):
            impl, _, cl = clause.partition(':')
            found.append('step:%s:%s:%s: single step %s on %s: clause %s fails' % (c['key'].split('/')[0], impl, cl, c['key'], impl, cl))
    rmworkdir('replay-c05')
    return replaylib.verdict(PID, path, found)
