"""C09 - snapshot files round-trip; bin2sna/snapmod change exactly what they name (DESIGN §4 C09).

TLC runs (all in spec/codec):
  Z80RleEnc / Z80Rle_mc.cfg   pattern A: the encoder the format text describes round-trips through SpecDecode
  SnapOpsMC / SnapOps_mc.cfg  pattern A: frame conditions of the option state machine on a scaled machine
  RleTables                   pattern D: real encoder on ALL strings over {ED,00,01} up to length 9 (10 thorough), both block
                              forms; real + independent decoder on ALL blocks over {ED,00,01,02,05} up to length 7
  RleLong                     pattern B: long runs through the real file writer/reader (v1 whole-RAM, v2/v3 paged)
  SnapCases                   pattern B: whole files of generated machine states, both formats, three writer routes
  SnapOpsTrace                sequential traces of real bin2sna / snapmod invocations, one SnapOps action per step
"""
import collections
import json
import multiprocessing as mp
import os
import random
import threading

from ..lib import cbuild, tlc
from ..lib.common import workdir, rmworkdir, seed, log, MachineryError, Timer
from ..lib.report import Report
from ..drivers import snapdrv

PID = 'C09'
T24 = 1 << 24


# ---------------------------------------------------------------------------------------------------
def _tables(rep_parts, wd, encn, decn):
    """Pattern D (runs in a background thread: the JSON table takes TLC ~1 s per MB to read)."""
    tab, total, wellformed = snapdrv.rle_tables(encn, decn)
    path = os.path.join(wd, 'rletables.json')
    with open(path, 'w') as f:
        json.dump(tab, f, separators=(',', ':'))
    r = tlc.run(os.path.join(tlc.SPEC, 'codec'), 'RleTables', 'RleTables.cfg', env={'TABLES': path}, tag='RleTables',
                timeout=3000, heap='12g')
    tlc.check_machinery(r, 'RleTables')
    if r.distinct != 2 * total:
        raise MachineryError('RleTables: expected %d states, got %d\n%s' % (2 * total, r.distinct, r.out[-2000:]))
    if wellformed < total // 4:
        raise MachineryError('RleTables: only %d well-formed blocks' % wellformed)
    rep_parts['tables'] = (r, total, wellformed, encn, decn)


def _mc(rep_parts, name, module, cfg, coverage):
    r = tlc.model_check('codec', module, cfg, timeout=1800, coverage=coverage)
    rep_parts[name] = r


def _threaded(fn, *args):
    box = {}

    def go():
        try:
            fn(*args)
        except BaseException as e:       # re-raised in the main thread
            box['exc'] = e
    t = threading.Thread(target=go)
    t.start()
    return t, box


def judge_op_traces(rep, traces, wd):
    bad = []
    slim = [{'fmt': t['fmt'], 'ver': t['ver'], 'machine': t['machine'],
             'steps': [{'ops': [{k: v for k, v in o.items() if k != 'form'} for o in s['ops']], 'obs': s['obs']} for s in t['steps']]}
            for t in traces]
    path = os.path.join(wd, 'optraces.json')
    with open(path, 'w') as f:
        json.dump(slim, f, separators=(',', ':'))
    r = tlc.run(os.path.join(tlc.SPEC, 'codec'), 'SnapOpsTrace', 'SnapOpsTrace.cfg', env={'CASES': path}, tag='SnapOpsTrace',
                timeout=3000, heap='12g')
    tlc.check_machinery(r, 'SnapOpsTrace')
    if r.violated:
        rep.model_violation(r, 'SnapOpsTrace')
    rep.add_tlc(r, 'SnapOpsTrace', traces=len(traces))
    failed = {}
    for code, clause in r.fails:
        failed[code // 1000 - 1] = (code % 1000, clause)
    expect = sum((failed[i][0] if i in failed else len(t['steps'])) + 1 for i, t in enumerate(traces))
    if r.distinct != expect and not r.violated:
        raise MachineryError('SnapOpsTrace: expected %d states, TLC found %d\n%s' % (expect, r.distinct, r.out[-3000:]))
    for i, (l, clause) in failed.items():
        bad.append((traces[i], l, clause))
    return bad


def run(tier):
    rep = Report(PID, tier)
    wd = workdir('c09')
    sd = seed()
    quick = tier == 'quick'
    cbuild.repo_only()
    parts = {}
    timer = Timer()
    # the worker pool is forked BEFORE any thread exists (forking a multi-threaded process can deadlock)
    pool = mp.get_context('fork').Pool(16)
    try:
        # ---- background: the exhaustive tables and the two model-checking runs --------------------------
        th_tab, box_tab = _threaded(_tables, parts, wd, 9 if quick else 10, 7)
        th_mc1, box_mc1 = _threaded(_mc, parts, 'rle_mc', 'Z80RleEnc', 'Z80Rle_mc.cfg', False)
        th_mc2, box_mc2 = _threaded(_mc, parts, 'ops_mc', 'SnapOpsMC', 'SnapOps_mc.cfg', True)
        # vacuity guard: the encoder without the "two or more EDs always go into a block" rule must fail the round trip
        rneg = tlc.model_check('codec', 'Z80RleEnc', 'Z80Rle_neg.cfg', timeout=600, coverage=False, workers=4)
        rep.add_tlc(rneg, 'Z80Rle_neg(expected violation)')
        if 'RoundTrip' not in rneg.violated:
            raise MachineryError('Z80Rle_neg: an encoder without the ED rule no longer violates RoundTrip (vacuous invariant?)')
        # ---- drive the real code -----------------------------------------------------------------------
        rng = random.Random(sd)
        ljobs = snapdrv.long_jobs(wd, rng, 16 if quick else 400)
        fjobs = snapdrv.file_jobs(wd, sd, 14 if quick else 300, 1 if quick else 6)
        ntr, nsteps = (72, 9) if quick else (1500, 14)
        tjobs = [(wd, n, sd * 7919 + n, nsteps) for n in range(ntr)]
        # all 64 (source bank, destination bank) pairs of a paged --move, both prefixes explicit, 8 per trace
        pairs = [(a, b) for a in range(8) for b in range(8)]
        tjobs += [(wd, ntr + j, sd * 7919 + ntr + j, 8, pairs[j::8]) for j in range(8)]
        a1 = pool.map_async(snapdrv.long_file_worker, ljobs, chunksize=2)
        a2 = pool.map_async(snapdrv.file_case_worker, fjobs, chunksize=2)
        a3 = pool.map_async(snapdrv.trace_worker, tjobs, chunksize=1)
        ojobs = [(wd, 5000 + n, sd * 31 + n, ('src', 'dst', 'both')[n % 3]) for n in range(12 if quick else 120)]
        a4 = pool.map_async(snapdrv.over_trace_worker, ojobs, chunksize=1)
        lcases = [c for p in a1.get() for c in p]
        fcases = a2.get()
        traces = a3.get() + a4.get()
    finally:
        pool.terminate()
        pool.join()
    for i, (route, machine) in enumerate([(r, m) for r in ('ws', 'b2s') for m in ('48K', '128K')]):
        fcases.append(snapdrv.defaults_case(wd, 9000 + i, route, machine))
    log('C09: drove %d long blocks, %d file cases, %d option traces (%d invocations) in %.1fs'
        % (len(lcases), len(fcases), len(traces), sum(len(t['steps']) for t in traces), timer.s()))

    # vacuity guards on what was generated
    lclasses = collections.Counter((c['form'], c['key'].split(':')[1][0] if ':' in c['key'] else '?') for c in lcases)
    for need in (('paged', 'A'), ('paged', 'B'), ('paged', 'C'), ('paged', 'D'), ('v1', 'A'), ('v1', 'B'), ('v1', 'C')):
        if not lclasses.get(need):
            raise MachineryError('C09: no long run-length case of class %s/%s' % need)
    if sum(1 for c in lcases if c['form'] != 'error' and not c['big']) < len(lcases) * 0.9:
        raise MachineryError('C09: too many long blocks are too large for TLC')
    opk = collections.Counter()
    for t in traces:
        for s in t['steps'][1:]:
            for o in s['ops']:
                opk[(o['k'], 'paged' if o['page'] >= 0 else 'plain')] += 1
                if o['k'] == 'poke':
                    opk[('poke', o['op'], 'form%d' % o.get('form', 2))] += 1
    for need in (('reg', 'plain'), ('state', 'plain'), ('poke', 'plain'), ('poke', 'paged'), ('move', 'plain'), ('move', 'paged'),
                 ('patch', 'plain'), ('patch', 'paged'), ('poke', 'xor', 'form2'), ('poke', 'add', 'form1')):
        if not opk.get(need):
            raise MachineryError('C09: option class %s never generated' % (need,))

    # ---- TLC judges -----------------------------------------------------------------------------------
    r, fails = tlc.judge('codec', 'RleLong', 'RleLong.cfg', lcases, casefile=os.path.join(wd, 'long.json'))
    rep.add_tlc(r, 'RleLong', traces=len(lcases))
    for i, clause in fails:
        c = lcases[i]
        cls = c['key'].split(':')[1] if ':' in c['key'] else c['key']
        rep.violation('rle-long:%s:%s:%s' % (c['form'], c['key'].split(':')[0], clause),
                      'block %s (%s form, class %s): %s; reader first differing offset %s, independent decoder %s; %s'
                      % (c['key'], c['form'], cls, clause, c['rdiff'], c['idiff'], c.get('err', '')),
                      {k: c[k] for k in c if k != 'blk'} | {'blk_head': c['blk'][:64]})
    for c in lcases:
        rep.count(('long', c['form'], c['key'].split(':', 1)[-1]))

    r, fails = tlc.judge('codec', 'SnapCases', 'SnapCases.cfg', fcases, casefile=os.path.join(wd, 'files.json'))
    rep.add_tlc(r, 'SnapCases', traces=len(fcases))
    for i, clause in fails:
        c = fcases[i]
        if clause.endswith(':tstates') and c['want']['t'] >= T24 and (clause.startswith('szx:') or clause == 'cross:tstates'):
            key = 'szx:tstates-ge-2^24'
        else:
            key = 'file:%s:%s:%s' % (c['route'], c['machine'], clause)
        got = [(f['fmt'], f['rerr'], f['ierr'], f['real'].get('t'), f['ind'].get('t')) for f in c['files']]
        rep.violation(key, 'state written via %s for %s (seed %s): clause %s fails; tstates written %d; per file (fmt, reader error, '
                      'decoder error, T read by skoolkit, T read by independent decoder): %s'
                      % (c['route'], c['machine'], c['seed'], clause, c['want']['t'], got),
                      {'route': c['route'], 'machine': c['machine'], 'seed': c['seed'], 'n': c['n'], 'want': c['want'], 'clause': clause,
                       'files': [{k: f[k] for k in ('fmt', 'rerr', 'ierr', 'real', 'ind', 'hdr', 'z80r', 'spcr', 'ay', 'keyb')} for f in c['files']]})
    for c in fcases:
        rep.count(('file', c['key']), n=len(c['files']))

    bad = judge_op_traces(rep, traces, wd)
    for t, l, clause in bad:
        s = t['steps'][l - 1]
        kinds = '+'.join(sorted(set(o['k'] + ('-paged' if o['page'] >= 0 else '') for o in s['ops']))) if l > 1 else 'create'
        if t.get('over') and l > 1:
            kinds = 'move-paged-overrun'
        ops = [{k: v for k, v in o.items() if v not in (0, -1, '', []) or k in ('k', 'v')} for o in s['ops']]
        rep.violation('ops:%s:%s:%s:%s' % (t['fmt'], s['tool'], kinds, clause),
                      '%s %s v%d %s, invocation %d (%s %s): %s; error %r; observed diff (first 12) %s'
                      % (t['machine'], t['fmt'], t['ver'], t['create'], l, s['tool'], ' '.join(s.get('args', [])), clause, s['obs']['err'],
                         s['obs']['diff'][:12]),
                      {'seed': t['seed'], 'n': t['n'], 'fmt': t['fmt'], 'ver': t['ver'], 'machine': t['machine'], 'create': t['create'],
                       'step': l, 'over': t.get('over'), 'nsteps': t.get('nsteps'), 'ops': ops, 'args': s.get('args'), 'obs': {k: s['obs'][k] for k in ('err', 'ind', 'real', 'same', 'toomany')},
                       'diff_head': s['obs']['diff'][:40], 'clause': clause})
    for t in traces:
        for s in t['steps']:
            rep.count(('ops', t['fmt'], t['machine'], tuple(sorted(set((o['k'], o['page'] >= 0) for o in s['ops'])))))

    # ---- collect the background runs ----------------------------------------------------------------------
    for th, box in ((th_tab, box_tab), (th_mc1, box_mc1), (th_mc2, box_mc2)):
        th.join()
        if 'exc' in box:
            raise box['exc']
    r, total, wellformed, encn, decn = parts['tables']
    rep.add_tlc(r, 'RleTables', traces=total)
    rep.evaluations += total
    rep.exhaustive = True
    drift = [n for n in r.notes if n[0] == 'DRIFT']
    rep.drift += len(drift)
    if drift:
        print('NOTE property=C09 real encoder output differs from the format text\'s greedy encoder on %d short strings (valid, drift only)'
              % len(drift))
    alpha = {1: snapdrv.ENC_ALPHA, 2: snapdrv.ENC_ALPHA, 3: snapdrv.DEC_ALPHA}
    for code, clause in r.fails:
        kind, n, idx = code // 10000000, (code // 100000) % 100, code % 100000
        s = snapdrv.nth_string(alpha[kind], n, idx)
        rep.violation('rle:%s:len%d:idx%d' % (clause, n, idx),
                      'run-length %s: %s %s (length %d, index %d): clause %s'
                      % ('encoder' if kind < 3 else 'decoder', 'input' if kind < 3 else 'block', ' '.join('%02X' % b for b in s), n, idx, clause),
                      {'kind': kind, 'n': n, 'idx': idx, 'bytes': s, 'clause': clause})
    rep.extra['rle_strings_enumerated_by_tlc'] = {'encoder_forms': 2, 'encoder_alphabet': 'ED 00 01', 'encoder_maxlen': encn,
                                                 'decoder_alphabet': 'ED 00 01 02 05', 'decoder_maxlen': decn, 'entries': total,
                                                 'wellformed_blocks': wellformed}
    for name in ('rle_mc', 'ops_mc'):
        r = parts[name]
        rep.add_tlc(r, name)
        rep.model_violation(r, name)
    never = [a for a, (d, t) in parts['ops_mc'].coverage.items() if t == 0]
    rep.extra['mc_actions_never_taken'] = never
    if never:
        raise MachineryError('SnapOpsMC: actions never taken: %s' % never)
    rep.extra['long_block_classes'] = {'%s/%s' % k: v for k, v in sorted(lclasses.items())}
    rep.extra['option_classes'] = {'/'.join(k): v for k, v in sorted(opk.items())}
    rep.extra['file_case_classes'] = dict(collections.Counter(c['key'] for c in fcases))
    rep.sample({k: lcases[0][k] for k in ('key', 'form', 'runs', 'lenfield', 'page', 'blklen')})
    rep.sample({'file_case': fcases[0]['key'], 'want': fcases[0]['want'], 'z80_header': fcases[0]['files'][0]['hdr'][:60]})
    t0 = traces[0]
    rep.sample({'trace': [t0['fmt'], t0['machine'], t0['create']], 'step2_ops': t0['steps'][1]['ops'] if len(t0['steps']) > 1 else [],
                'step2_diff': t0['steps'][1]['obs']['diff'][:8] if len(t0['steps']) > 1 else []})
    rep.rule = ('RLE: every string over {ED,00,01} up to length 9/10 x 2 block forms through the real encoder, every block over '
                '{ED,00,01,02,05} up to length 7 through the real and the independent decoder (TLC enumerates, tables looked up); long: '
                'runs of every byte value x lengths 1..5,254..258,509..513, ED runs 1..600, ED before/after runs, banks ending in 1..6 EDs, '
                'random run-structured banks, each through real files (v3 paged via write_snapshot, v1/v2 via snapmod) - TLC decodes the '
                'real block against the runs written; files: random/boundary machine states x {48K,128K,+2} x {write_snapshot, bin2sna, '
                'get_state} written as .z80 and .szx, plus foreign v1/v2/v3/szx files through snapmod; ops: random bin2sna/snapmod '
                'invocations, every step validated as the SnapOps action with the full state diff; distinct_nontrivial = distinct '
                '(block class | file route x machine x T class | option class set)')
    rep.assumptions = ['zlib (SZX RAM pages) and CRC-32 are trusted projections (DESIGN §5)',
                       'the byte-by-byte comparison of decoded 16K banks is done in Python (equality fact, first differing offset, CRC limbs '
                       'are judged by TLC); run-length semantics are decided by TLC (SpecDecode / MatchRuns) on the real block bytes',
                       'the independent decoder harness/drivers/snapfile.py follows the published Z80 and ZX-State documents; its RLE decoder '
                       'is validated against SpecDecode exhaustively in RleTables',
                       'options are generated inside their documented domain (bank prefixes on 128K only, paged moves inside the bank, '
                       'addresses 0..65535, tstates < 2^24 in option traces); snapmod applies --patch, --move, --poke, --reg, --state in '
                       'that order within one invocation',
                       'registers that the caller does not name have no documented default (.z80 gets I=63, IY=23610, .szx zeros): '
                       'don\'t-care, not a cross-format violation']
    rmworkdir('c09')
    return rep.finish()


def replay(path):
    with open(path) as f:
        d = json.load(f)
    print('replay of %s: key %s' % (path, d.get('key')))
    rp = d.get('replay') or {}
    wd = workdir('c09-replay')
    cbuild.repo_only()
    rep = Report(PID, 'replay')
    failed = False
    if 'route' in rp and 'want' in rp:
        tclass = 'big' if rp['want']['t'] >= T24 else 'frame'
        c = snapdrv.file_case_worker((wd, rp['n'], rp['seed'], rp['route'], rp['machine'] if rp['route'] != 'b2s' else rp['machine'], tclass))
        r, fails = tlc.judge('codec', 'SnapCases', 'SnapCases.cfg', [c], casefile=os.path.join(wd, 'files.json'))
        for _, clause in fails:
            print('  %s: %s' % (c['key'], clause))
        failed = bool(fails)
    elif 'create' in rp and rp.get('over'):
        t = snapdrv.over_trace_worker((wd, rp['n'], rp['seed'], rp['over']))
        bad = judge_op_traces(rep, [t], wd)
        for _, l, clause in bad:
            print('  invocation %d: %s' % (l, clause))
        failed = bool(bad)
    elif 'create' in rp:
        t = snapdrv.trace_worker((wd, rp['n'], rp['seed'], rp.get('nsteps', 14)))
        bad = judge_op_traces(rep, [t], wd)
        for _, l, clause in bad:
            print('  invocation %d: %s' % (l, clause))
        failed = bool(bad)
    else:
        print('  (table / long-block violations are deterministic: rerun ./check C09)')
    rmworkdir('c09-replay')
    print('VIOLATION reproduced' if failed else 'no violation on replay')
    return 1 if failed else 0
