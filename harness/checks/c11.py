"""C11 - tape files round-trip; the edge list of a tape is exactly the pulses its blocks specify (DESIGN §4 C11).

TLC runs (all in spec/tape):
  TapeMC* / Tape_mc*.cfg   pattern A: the generator state machine (Tape.tla) against the declarative signal of TapeSignal.tla on
                           every tape of the bounded alphabets: edges monotone, played signal = specified signal, ranges + bits
  TapeMC* / DumpSpec       pattern C, step 1: TLC writes the bounds of each model (alphabet, MaxBlocks, options) to a file
  TapeCases (kind edges)   pattern C, step 2: EVERY tape of those bounded models replayed into the real get_edges, and random tapes
                           beyond the bounds (more blocks, 16-bit widths); TLC judges the recorded edges/ranges with PropertyClause
  TapeCases (kind files)   pattern B: files made by the real write_tap/write_pzx and by the harness' TZX/PZX byte writers; TLC applies
                           TapeFormats to the RAW bytes and compares with what the real parsers, tapinfo and the tapinfo -a pipeline
                           (parser + loop expansion + get_edges) said; one logical tape in 5 formats must give one edge list
"""
import collections
import json
import multiprocessing as mp
import os
import random
import re
import threading

from ..lib import cbuild, tlc
from ..lib.common import workdir, rmworkdir, seed, log, MachineryError, Timer
from ..lib.report import Report
from ..drivers import tapedrv

PID = 'C11'
MODELS = {
    # (module, cfg, TLC workers): every tape of each model is also replayed into the real code
    # (TLC evaluates the alphabet once per worker, ~8 s for the 18420 blocks of TapeMC1: few workers there)
    'quick': (('TapeMC', 'Tape_mc.cfg', 8), ('TapeMC3', 'Tape_mc3.cfg', 8)),
    'thorough': (('TapeMC', 'Tape_mc.cfg', 4), ('TapeMC3', 'Tape_mc3.cfg', 4), ('TapeMC1', 'Tape_mc1.cfg', 4), ('TapeMC2', 'Tape_mc2.cfg', 8)),
}
EDGE_FIELDS = ('kind', 'blocks', 'fe', 'gpol', 'expect', 'exc', 'first', 'runs', 'ranges')
FILE_FIELDS = ('fmt', 'raw', 'start', 'stop', 'skip', 'exc', 'parsed', 'warn', 'info', 'infoexc', 'writer', 'wdata', 'wexc')
SIG_FIELDS = ('has', 'exc', 'first', 'runs', 'ranges')
KNOWN_CLASSES = ('zp-lead', 'zp-tail', 'zp-silent')      # tapedrv.hazards: zero-length pulses of sample data at a block's ends
JAVA = {'JAVA_TOOL_OPTIONS': '-Xss64m'}       # some operators recurse once per block/bit


def _threaded(fn, *args):
    box = {}

    def go():
        try:
            box['val'] = fn(*args)
        except BaseException as e:       # re-raised in the main thread
            box['exc'] = e
    t = threading.Thread(target=go)
    t.start()
    return t, box


def _join(t, box):
    t.join()
    if 'exc' in box:
        raise box['exc']
    return box['val']


def _mc(module, cfg, workers):
    return tlc.model_check('tape', module, cfg, timeout=3000, coverage=False, workers=workers)


def _dump(module, cfg, wd):
    """pattern C step 1: the bounds of a model, written by TLC itself"""
    d = os.path.join(tlc.SPEC, 'tape')
    with open(os.path.join(d, cfg)) as f:
        text = f.read()
    text = re.sub(r'(?m)^INVARIANT.*\n', '', text).replace('SPECIFICATION Spec', 'SPECIFICATION DumpSpec')
    dcfg = os.path.join(wd, 'dump-' + cfg)
    with open(dcfg, 'w') as f:
        f.write(text)
    out = os.path.join(wd, 'alphabet-%s.json' % module)
    r = tlc.run(d, module, dcfg, env={'ALPHA_OUT': out}, workers=1, tag='dump-' + module, timeout=1200)
    tlc.check_machinery(r, 'dump ' + module)
    if not r.ok or not os.path.isfile(out):
        raise MachineryError('dump %s failed\n%s' % (module, r.out[-2000:]))
    return tapedrv.load_alphabet(out)


def _slim(c):
    if c['kind'] == 'edges':
        return {k: c[k] for k in EDGE_FIELDS}
    files = []
    for f in c['files']:
        g = {k: f[k] for k in FILE_FIELDS}
        g['sig'] = {k: f['sig'][k] for k in SIG_FIELDS}
        files.append(g)
    return dict(kind='files', same=c['same'], files=files)


def _judge(rep, cases, wd, name, workers=16):
    """pattern B/C: TapeCases!Judge on every case; returns [(index, clause)]"""
    fails = []
    b = 0
    part = 0
    while b < len(cases):
        chunk, size = [], 0
        while b + len(chunk) < len(cases) and len(chunk) < 40000 and size < 30e6:
            s = _slim(cases[b + len(chunk)])
            chunk.append(s)
            size += 40 + 5 * sum(len(f['raw']) + sum(len(p['data']) for p in f['parsed']) + sum(len(d) for d in f['wdata'])
                                 for f in s.get('files', ())) + 12 * len(s.get('runs', ()))
        path = os.path.join(wd, '%s-%d.json' % (name, part))
        with open(path, 'w') as f:
            json.dump(chunk, f, separators=(',', ':'))
        r = tlc.run(os.path.join(tlc.SPEC, 'tape'), 'TapeCases', 'TapeCases.cfg', env=dict(JAVA, CASES=path), workers=workers,
                    tag='TapeCases-%s-%d' % (name, part), timeout=3000, heap='12g')
        tlc.check_machinery(r, 'TapeCases ' + name)
        if r.distinct != 2 * len(chunk):
            raise MachineryError('TapeCases %s: expected %d states, TLC found %d\n%s' % (name, 2 * len(chunk), r.distinct, r.out[-3000:]))
        rep.add_tlc(r, '%s-%d' % (name, part), traces=len(chunk))
        fails.extend((b + tid - 1, clause) for tid, clause in sorted(set(r.fails)))
        os.remove(path)
        b += len(chunk)
        part += 1
    return fails


def _block_shape(b):
    return (bool(b['pulses']), bool(b['data']), b['used'], b['tail'] > 0, b['pause'] > 0, b['pol'], b['dr'],
            0 in b['zero'] or 0 in b['one'], any(d == 0 for c, d in b['pulses']), len(b['zero']), len(b['one']))


def _file_jobs(tier, rng):
    quick = tier == 'quick'
    n = (lambda q, t: q if quick else t)
    jobs = []
    jobs += [('writers', 'nonempty')] * n(10, 120) + [('writers', 'any')] * n(6, 60)
    jobs += [('big', 256)] * n(1, 6) + [('big', 6912)] * n(1, 4) + [('big', 65535)] * n(1, 3)
    jobs += [('xfmt', 'cheap')] * n(8, 40) + [('xfmt', 'any')] * n(2, 60)
    for opts in (False, True):
        jobs += [('tzx', opts)] * n(110, 2500) + [('pzx', opts)] * n(110, 2500) + [('tap', opts)] * n(60, 1200)
    jobs += [('puls', [e]) for e in tapedrv.puls_boundary_entries()]
    jobs += [('puls-random', None)] * n(30, 600)
    rng.shuffle(jobs)
    return jobs


def _vacuity(ecases, fcases):
    """every class the property quantifies over was exercised"""
    seen = collections.Counter()
    for c in ecases:
        seen['hz:' + c['key']] += 1
        seen['gpol%d' % (c['gpol'] % 2)] += 1
        seen['fe>0' if c['fe'] else 'fe=0'] += 1
        for b in c['blocks']:
            if b['data']:
                seen['used%d' % b['used']] += 1
                seen['tail>0' if b['tail'] else 'tail=0'] += 1
            seen['pol%d' % b['pol']] += 1
            seen['pause>0' if b['pause'] else 'pause=0'] += 1
            if b['dr']:
                seen['dr'] += 1
            if any(d == 0 for cnt, d in b['pulses']):
                seen['zero-tone'] += 1
            if any(cnt == 0 for cnt, d in b['pulses']):
                seen['empty-tone'] += 1
    for c in fcases:
        seen['fam:' + c['key']] += 1
        for f in c['files']:
            if f['start'] != 1:
                seen['opt-start'] += 1
            if f['stop']:
                seen['opt-stop'] += 1
            if f['skip']:
                seen['opt-skip'] += 1
            if f['sig']['has']:
                seen['sig:' + f['fmt']] += 1
            for p in f['parsed']:
                seen['id:%s:%d' % (f['fmt'], p['id'])] += 1
            if f['fmt'] == 'tap' and f['warn']:
                seen['tap-warn%d' % f['warn']] += 1
        for e in c.get('entries', ()):
            seen['puls:' + e[2]] += 1
    need = ['hz:plain', 'hz:zp', 'hz:uneven', 'gpol0', 'gpol1', 'fe>0', 'fe=0', 'tail>0', 'tail=0', 'pol-1', 'pol0', 'pol1',
            'pause>0', 'pause=0', 'dr', 'zero-tone', 'empty-tone'] + ['used%d' % u for u in range(1, 9)]
    need += ['fam:writers', 'fam:writers-big', 'fam:xfmt', 'fam:tzx', 'fam:tzx-opts', 'fam:pzx', 'fam:pzx-opts', 'fam:tap-ok', 'fam:tap-trunc',
             'fam:tap-stray', 'fam:puls-forms', 'opt-start', 'opt-stop', 'opt-skip', 'sig:tap', 'sig:tzx', 'sig:pzx', 'tap-warn1', 'tap-warn2']
    need += ['id:tzx:%d' % i for i in (0x10, 0x11, 0x12, 0x13, 0x14, 0x15, 0x20, 0x21, 0x22, 0x24, 0x25, 0x30, 0x32)]
    need += ['id:pzx:%d' % i for i in (1, 2, 3, 4, 5, 6, 0)] + ['puls:' + f for f in tapedrv.PULS_FORMS]
    missing = [k for k in need if not seen.get(k)]
    if missing:
        raise MachineryError('C11: classes never exercised: %s' % ', '.join(missing))
    return seen


def run(tier):
    rep = Report(PID, tier)
    wd = workdir('c11')
    sd = seed()
    quick = tier == 'quick'
    cbuild.repo_only()
    timer = Timer()
    rng = random.Random(sd)
    models = MODELS[tier]
    # the worker pool is forked BEFORE any thread exists
    pool = mp.get_context('fork').Pool(16)
    try:
        # ---- (A) the specification itself, in the background ------------------------------------------------------------------
        mcs = [(m, cfg, _threaded(_mc, m, cfg, w)) for m, cfg, w in models]
        # ---- (C) every tape of the bounded models -> real get_edges ------------------------------------------------------------
        dumps = [(m, _threaded(_dump, m, cfg, wd)) for m, cfg, _ in models]
        fjobs = _file_jobs(tier, rng)
        fasync = pool.map_async(tapedrv.file_worker, [(sd * 1009 + k, k, fjobs[k::16], wd) for k in range(16)], chunksize=1)
        nedge = 400 if quick else 4000
        easync = pool.map_async(tapedrv.edge_worker, [(sd * 7919 + k, nedge) for k in range(16)], chunksize=1)
        rasync = []
        replayed = {}
        for m, (t, box) in dumps:
            al = _join(t, box)
            tapes = list(tapedrv.enumerate_tapes(len(al['alphabet']), al['maxblocks']))
            replayed[m] = [len(tapes), len(al['alphabet']), al['maxblocks'], 0]
            per = max(1, (len(tapes) + 63) // 64)
            rasync.append(pool.map_async(tapedrv.replay_worker, [(m, al['alphabet'], tapes[i:i + per], al['firstedges'], al['gpols'])
                                                                 for i in range(0, len(tapes), per)], chunksize=1))
        rcases = [c for a in rasync for p in a.get() for c in p]
        for c in rcases:
            replayed[c['family']][3] += 1
        ecases = [c for p in easync.get() for c in p]
        fcases = [c for p in fasync.get() for c in p]
    finally:
        pool.terminate()
        pool.join()
    log('C11: drove %d model tapes, %d random tapes, %d file cases (%d files) in %.1fs'
        % (len(rcases), len(ecases), len(fcases), sum(len(c['files']) for c in fcases), timer.s()))
    seen = _vacuity(rcases + ecases, fcases)

    # ---- TLC judges what the real code did ---------------------------------------------------------------------------------------
    cases = rcases + ecases + fcases
    fails = _judge(rep, cases, wd, 'cases')
    log('C11: judged %d cases in %.1fs' % (len(cases), timer.s()))
    drift = collections.Counter()
    for i, clause in fails:
        c = cases[i]
        if 'machinery' in clause:
            raise MachineryError('C11: TapeCases says %s for case %s' % (clause, json.dumps(_slim(c))[:3000]))
        base = clause.split(':')[-1]
        if base.startswith('drift-'):
            drift[base] += 1
            continue
        if c['kind'] == 'edges':
            rep.violation('edges:%s:%s' % (c['key'], clause),
                          'get_edges on a %s tape of class %s (first_edge=%d polarity=%d): %s; blocks=%s -> first=%s runs=%s ranges=%s %s'
                          % (c['family'], c['key'], c['fe'], c['gpol'], clause, json.dumps(c['blocks']), c['first'], c['runs'][:40],
                             c['ranges'], c.get('err', '')), c)
        else:
            m = re.match(r'f(\d+):(.*)', clause)
            f = c['files'][int(m.group(1)) - 1] if m else None
            key = 'files:%s:%s:%s' % (c['key'], f['fmt'], m.group(2)) if m else 'files:%s:%s' % (c['key'], clause)
            hz = [g['hz'] for g in ([f] if f else c['files']) if g['hz'] in KNOWN_CLASSES]
            if hz:                        # the input class decides the key: the same classes as for get_edges alone
                key = 'edges:%s:%s' % (hz[0], key)
            what = '%s: %s' % (c['key'], clause)
            if f:
                what += '; %s file %s start=%d stop=%d skip=%s %s' % (f['fmt'], bytes(f['raw'][:120]).hex(), f['start'], f['stop'], f['skip'],
                                                                       f.get('err', ''))
            slim = _slim(c)
            for g in slim['files']:
                if len(g['raw']) > 4000:
                    g['raw'] = g['raw'][:4000] + ['...']
                    g['wdata'] = [d[:100] for d in g['wdata']]
                    g['parsed'] = [dict(p, data=p['data'][:100]) for p in g['parsed']]
            rep.violation(key, what, slim)
    rep.drift = sum(drift.values())
    rep.extra['drift_kinds'] = dict(drift)

    # ---- the model-checking runs ---------------------------------------------------------------------------------------------------
    for m, cfg, (t, box) in mcs:
        r = _join(t, box)
        rep.add_tlc(r, m + '/' + cfg)
        rep.model_violation(r, m)
        if not r.violated and r.distinct < 50000:
            raise MachineryError('%s: only %d states' % (m, r.distinct))

    # ---- evidence --------------------------------------------------------------------------------------------------------------------
    for c in rcases + ecases:
        rep.count((c['key'], c['fe'] > 0, c['gpol'] % 2, tuple(_block_shape(b) for b in c['blocks'])))
    for c in fcases:
        for f in c['files']:
            rep.count((c['key'], f['fmt'], f['start'] != 1, f['stop'] > 0, bool(f['skip']), f['warn'], tuple(p['id'] for p in f['parsed'])))
            rep.evaluations += 2            # parser, tapinfo, tapinfo -a
    rep.sample({k: ecases[0][k] for k in ('family', 'key', 'blocks', 'fe', 'gpol', 'first', 'runs', 'ranges')})
    x = next(c for c in fcases if c['key'] == 'xfmt')
    rep.sample({'key': 'xfmt', 'files': [dict(fmt=f['fmt'], raw_hex=bytes(f['raw']).hex()[:200], edges=f['sig']['n']) for f in x['files']]})
    rep.extra['model_tapes_replayed'] = {m: dict(tapes=a, alphabet=n, maxblocks=mb, get_edges_calls=k,
                                                 note='every tape x first_edge x polarity; tapes no file format can express (PZX '
                                                      'sample data followed by a block without a stated level) are left out')
                                         for m, (a, n, mb, k) in replayed.items()}
    rep.extra['classes_exercised'] = {k: v for k, v in sorted(seen.items())}
    rep.rule = ('edges: every tape of the bounded models (alphabets written by TLC) x first_edge x polarity replayed into the real get_edges, '
                'plus random TZX-/PZX-expressible tapes of up to 6 blocks with widths up to 65535; files: families writers (real write_tap/'
                'write_pzx, lengths 0..65535, every flag class), xfmt (one tape as TAP/TZX 0x10/0x11/0x12+0x13+0x14/PZX), tzx (signal blocks '
                'incl. 0x15 and 0x20 with group/loop/info blocks interleaved), pzx (every PULS word form, DATA pulse sequences, PAUS, BRWS/'
                'STOP/unknown tags), tap (empty/truncated/stray byte), each with and without --tape-start/stop/skip; distinct_nontrivial = '
                'distinct (input class, options, shape of every block | block id sequence)')
    rep.assumptions = [
        'tapinfo stdout is projected by regular expressions to (block number, block id/tag name, Length) only',
        'the edge list of the tapinfo -a pipeline is observed by wrapping tapinfo.get_edges; files over 12000 edges or with edge times '
        '>= 2^31 are judged for parsing/round trip only',
        'a TAP/TZX 0x10 block with flag byte 1..127 played with the short pilot is counted as drift (drift-pilot), not as a violation',
        'TZX 0x16-0x19 and 0x18 CSW blocks (documented as unsupported) are not generated',
    ]
    rmworkdir('c11')
    return rep.finish()
