"""C20 - RZX playback is reproducible, implementation-independent and resumable; rzxinfo is faithful (DESIGN §4 C20)."""
import json
import multiprocessing as mp
import os
import threading
from collections import Counter

from ..lib import cbuild, tlc
from ..lib.common import workdir, rmworkdir, seed, log, MachineryError
from ..lib.report import Report
from ..drivers import rzxdrv

PID = 'C20'
NEED = ('end:accept', 'end:accept-halt', 'end:accept-pv', 'end:block', 'end:none', 'repeat-markers', 'multi-block', 'empty-frames',
        'paged', 'frames-with-readings', 'snap:same', 'snap:needed', 'snap:stale',
        # interrupts accepted at a frame boundary while SP sits at a ROM/RAM or 64K edge (pushed PC half in ROM, half in RAM)
        'int-sp-edge', 'int-sp-split', 'int-sp:4001', 'int-sp:0001', 'int-sp-split:im1', 'int-sp-split:im2', 'int-sp-split:48K',
        'int-sp-split:128K',
        # port reads at edge port numbers executed by the contended playbacks (MEMPTR = port + 1 carries into the high byte only
        # for n = FF), and BIT k,(HL) right after them (MEMPTR's high byte shows in F), also in SZX recordings (MEMPTR field compared)
        'cmio:in-a:FF', 'cmio:bit-after-in', 'cmio:bit-after-in-a-FF', 'cmio:bit-after-in-a-FF-carry-in-f',
        'cmio-szx:in-a:FF',
        # mode 2 interrupts accepted with the vector wrapping at 64K (I = FF) or crossing a 16K page edge (3F 7F BF)
        'int-im2:I=FF', 'int-im2:I=FF:48K', 'int-im2:I=FF:128K', 'int-im2-straddle', 'int-im2:I=3F', 'int-im2-straddle:two-ram-pages')


def judge_traces(rep, traces, wd):
    bad = []
    step = 3000
    for b in range(0, len(traces), step):
        part = traces[b:b + step]
        path = os.path.join(wd, 'rtraces.json')
        with open(path, 'w') as f:
            json.dump([{k: t[k] for k in ('blocks', 'flags', 'ev', 'obs', 'full')} for t in part], f, separators=(',', ':'))
        r = tlc.run(os.path.join(tlc.SPEC, 'rzx'), 'RzxTrace', 'RzxTrace.cfg', env={'CASES': path}, tag='RzxTrace', timeout=3000, heap='12g')
        tlc.check_machinery(r, 'RzxTrace')
        rep.add_tlc(r, 'RzxTrace', traces=len(part))
        failed = {}
        for code, clause in r.fails:
            failed[code // 100000 - 1] = (code % 100000, clause)
        expect = sum((failed[i][0] if i in failed else len(t['obs'])) + 1 for i, t in enumerate(part))
        if r.distinct != expect:
            raise MachineryError('RzxTrace: expected %d states, TLC found %d\n%s' % (expect, r.distinct, r.out[-3000:]))
        for i, (l, clause) in failed.items():
            if clause == 'noclaim':
                rep.drift += 1
            else:
                bad.append((part[i], l, clause))
    return bad


def slim(c):
    d = {k: v for k, v in c.items() if k not in ('blocks', 'bounds', 'wblocks', 'info')}
    d['frames'] = [[[f['fc'], f['ic'], len(f['ins'])] for f in b['fs']] for b in c['blocks']]
    d['ends'] = [[e['dec'] for e in b['ends']] for b in c['blocks']]
    return d


def run(tier):
    rep = Report(PID, tier)
    wd = workdir('c20-' + tier)
    sd = seed()
    cfg = 'Rzx_mc.cfg' if tier == 'quick' else 'Rzx_mc_full.cfg'
    cbuild.build()
    box = {}

    def mc():
        try:
            box['r'] = tlc.model_check('rzx', 'Rzx_mc', cfg, timeout=2400, coverage=False, heap='12g', workers=8)
        except BaseException as ex:     # re-raised in the main thread
            box['ex'] = ex
    th = threading.Thread(target=mc)
    per = 8 if tier == 'quick' else 120
    with mp.get_context('fork').Pool(16) as pool:
        th.start()          # after the workers are forked: the model check runs while they drive the real tools
        parts = pool.map(rzxdrv.campaign, [(sd * 131 + k, per, wd, tier) for k in range(16)])
    log('C20: campaign done at %.1fs' % rep.timer.s())
    th.join()
    log('C20: model check done at %.1fs' % rep.timer.s())
    if 'ex' in box:
        raise box['ex']
    rep.add_tlc(box['r'], cfg.replace('.cfg', ''))
    rep.model_violation(box['r'], cfg.replace('.cfg', ''))
    cases = [c for p in parts for c in p[0]]
    traces = [t for p in parts for t in p[1]]
    stats = Counter()
    for p in parts:
        stats.update(p[2])
    log('C20: %d recordings, %d cases (%d plays, %d stop points, %d rzxinfo reports), %d instruction traces'
        % (stats['recordings'], len(cases), stats['plays'], stats['stops'], stats['infos'], len(traces)))
    noclaim = set()
    fails = []
    step = 6000
    for b in range(0, len(cases), step):
        part = cases[b:b + step]
        rs, fl = tlc.judge('rzx', 'RzxCases', 'RzxCases.cfg', part, casefile=os.path.join(wd, 'cases.json'))
        rep.add_tlc(rs, 'RzxCases', traces=len(part))
        fails += [(b + i, clause) for i, clause in fl]
        for name, body in rs.notes:
            if name == 'NOCLAIM':
                noclaim.add(b + int(body) - 1)
    claimed = Counter(c['kind'] for i, c in enumerate(cases) if i not in noclaim)
    flags_claimed = Counter(c['flags'] for i, c in enumerate(cases) if i not in noclaim and c['kind'] == 'play')
    rep.drift = len(noclaim)
    rep.extra['recorder'] = dict(stats)
    rep.extra['interrupts_accepted_with_sp_at_edge'] = {k: v for k, v in sorted(stats.items()) if k.startswith('int-sp')}
    rep.extra['im2_interrupts_with_vector_at_page_edge'] = {k: v for k, v in sorted(stats.items()) if k.startswith('int-im2')}
    rep.extra['port_edges_under_cmio_playback'] = {k: v for k, v in sorted(stats.items()) if k.startswith('cmio')}
    rep.extra['claimed_cases'] = dict(claimed)
    rep.extra['no_claim_flags_do_not_match_convention'] = len(noclaim)
    rep.extra['claimed_plays_by_flags'] = {str(k): v for k, v in sorted(flags_claimed.items())}
    missing = [k for k in NEED if not stats[k]]
    if missing or len(flags_claimed) < 8 or not claimed['stop'] or not claimed['info'] or not noclaim or len(traces) < 10:
        raise MachineryError('vacuous C20 run: missing %s; claimed %s; flags %s; noclaim %d; traces %d'
                             % (missing, dict(claimed), dict(flags_claimed), len(noclaim), len(traces)))
    for i, c in enumerate(cases):
        if i not in noclaim:
            rep.count((c['key'], c['kind'], c['flags'], c.get('impl'), c.get('cmio'), c.get('k'), len(c['blocks'])))
    for c in cases[:2]:
        rep.sample(slim(c))
    for i, clause in fails:
        c = cases[i]
        if c['kind'] == 'play':
            what = ('rzxplay %s%s --flags %d on a %s recording (%s): %s; recorder ended in %s, playback in %s %s'
                    % ('--python ' if c['impl'] == 'py' else '', '--cmio' if c['cmio'] else '', c['flags'], c['key'], slim(c)['frames'],
                       clause, {k: v for k, v in c['want'].items() if k != 'banks'}, {k: v for k, v in c['got'].items() if k != 'banks'}, c['err']))
            key = 'play:%s:%s:%s' % (c['impl'], 'cmio' if c['cmio'] else 'plain', clause)
        elif c['kind'] == 'stop':
            what = ('rzxplay %s%s --flags %d --stop %d on a %s recording (%s) writing .rzx, then playing it: %s %s %s'
                    % ('--python ' if c['impl'] == 'py' else '', '--cmio' if c['cmio'] else '', c['flags'], c['k'], c['key'], slim(c)['frames'],
                       clause, c['werr'], c['rerr']))
            key = 'stop:%s:%s' % (c['fmt'][0], clause)
            if c['fmt'][0] == 'z80' and c['fmt'][1] == 1 and any(b['regs'][15] == 0 for b in c['bounds'][c['k'] - 1:c['k'] + 2]):
                # a version 1 .z80 header cannot say PC = 0: known limit of re-writing the embedded snapshot in its own version
                key = 'stop:z80v1-pc0:%s' % clause
        else:
            what = 'rzxinfo --frames on %s (%s): %s %s' % (c['of'], c['key'], clause, c['err'])
            key = 'info:%s' % clause
        rep.violation(key, what, c)
    bad = judge_traces(rep, traces, wd)
    for t, l, clause in bad:
        rep.violation('trace:%s:%s:%s' % (t['impl'], 'cmio' if t['cmio'] else 'plain', clause),
                      'rzxplay %s%s --flags %d --trace on a %s recording: line %d shows %s, recorder executed %s: %s'
                      % ('--python ' if t['impl'] == 'py' else '', '--cmio' if t['cmio'] else '', t['flags'], t['key'], l,
                         t['obs'][l - 1] if l <= len(t['obs']) else None, t['ev'][l - 1] if l <= len(t['ev']) else None, clause), t)
    rep.evaluations = stats['plays'] + 2 * stats['stops'] + stats['infos']
    rep.rule = ('generated programs (IN A,(n)/IN r,(C)/INI.. with values steering branches, HALT, EI/DI, IM 0/1/2 with the ROM or a RAM '
                'handler, LD A,I/R, prefix chains, 128K paging, LD SP,nn with nn at the ROM/RAM border or the 64K wrap (4001 4000 4002 0001 0000 '
                '0002 FFFF 3FFF) then EI and a wait so that the frame interrupt pushes PC half into ROM, handlers that return or reset SP '
                'and restart, IM 2 with I mostly from FF 3F 7F BF FE 40 (vector wrapping at 64K / crossing a 16K page: its ROM bytes as the ROM '
                'has them, the handler placed where the two bytes point; LD I,A switches between two such values), IN A,(n) / OUT (n),A / IN r,(C) / INI / IND / OUT (C),r at port numbers FF FE 00 7F 80 1F with A or B in '
                '00 07 7F FF followed by BIT k,(HL) / BIT k,(IX+d) and a store of or a branch on F (MEMPTR made visible), byte soup) recorded by the harness recorder on the real C simulators '
                '(plain and contended) into 1-3 blocks of frames of 1..900 fetches ({z80 v1/v2/v3, szx} snapshots, compressed or not, '
                'repeated-frame markers, empty frames, conventions 0..3); played by rzxplay.main under {C,--python} x {plain,--cmio} x '
                'flags 0..7, stopped at every frame, written, resumed; distinct_nontrivial = distinct (machine/format/convention/input '
                'mode, kind, flags, implementation, stop point, blocks) among claimed cases')
    rep.assumptions = ['zlib (RZX blocks, SZX pages) and the independent z80/szx decoder of C09 are trusted projections',
                       'the T-state counter is not part of the compared state (RZX playback is fetch-count based)',
                       'contended playback from .z80 snapshots (no MEMPTR) is claimed only for runs that do not depend on MEMPTR']
    rmworkdir('c20-' + tier)
    return rep.finish()


def replay(path):
    """Re-make the recording of a replay file (same seed), run the real tools on it again and let TLC judge."""
    with open(path) as f:
        d = json.load(f)
    rp = d.get('replay') or {}
    print('replay of %s: key %s' % (path, d.get('key')))
    if 'rseed' not in rp:
        print('  nothing to re-run in this replay file')
        return 2
    wd = workdir('c20-replay')
    cbuild.preload()
    cases, traces, stats = [], [], Counter()
    rzxdrv.one_recording(rp['rseed'], wd, rp['rec'], rp['tier'], cases, traces, stats)
    rep = Report(PID, 'replay')
    rs, fails = tlc.judge('rzx', 'RzxCases', 'RzxCases.cfg', cases, casefile=os.path.join(wd, 'cases.json'))
    for i, clause in fails:
        c = cases[i]
        print('  %s flags=%d impl=%s cmio=%s k=%s: %s' % (c['kind'], c['flags'], c.get('impl'), c.get('cmio'), c.get('k'), clause))
    bad = judge_traces(rep, traces, wd) if traces else []
    for t, l, clause in bad:
        print('  trace %s cmio=%s line %d: %s' % (t['impl'], t['cmio'], l, clause))
    rmworkdir('c20-replay')
    print('REPRODUCED' if fails or bad else 'NOT-REPRODUCED')
    return 1 if fails or bad else 0

