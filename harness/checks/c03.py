"""C03 - skool -> ctl -> skool round trip retains every annotation and directive; the second round trip is a
fixed point (DESIGN section 4 C03).

(A) spec/doc/CtlDoc.tla - the abstract annotated document as a state machine of constructor actions - is model
    checked (CtlDoc_mc.cfg): every reachable document is well formed (sub-blocks tile the entries, M ranges end on
    sub-block ends, comments / directives are attached to existing addresses, @ignoreua has its comment ...).
(B) TLC -simulate generates documents from the same specification (CtlDoc_sim.cfg); a random builder performing
    the same constructor actions adds documents with wider texts.  Every document is rendered as a control file +
    a memory image that disassembles into exactly its statements and sent through the real tools
        ctl0 -sna2skool-> A -skool2ctl -b [-k] [-h|-l]-> ctl1 -sna2skool-> B -skool2ctl-> ctl2
    (sna2skool options -H -l -w identical on both legs, referrer comments off).
(C) spec/doc/CtlDocCases.tla (TLC) maps A, B and ctl1 to items with projections written from the format
    documentation and judges: items(A) = items(ctl1) = items(B), A = B textually, ctl2 = ctl1; it names the first
    item lost / added / changed.  Items of the generated document missing from A are counted as drift (ctl0 -> A is
    not part of the property).
"""
import collections
import json
import multiprocessing as mp
import os
import random
import re

from ..lib import cbuild, tlc
from ..lib.common import workdir, rmworkdir, seed, log, MachineryError, SPEC
from ..lib.report import Report
from ..drivers import docdrv

PID = 'C03'
CASE_FIELDS = ('err', 'kl', 'hexm', 'end', 'warn', 'D', 'A', 'B', 'C', 'hA', 'hB', 'hC1', 'hC2')
STARTS = (32768, 40000, 0x6000, 16384, 'top', 'top')


# ----------------------------------------------------------------------------------------------
# documents from the specification (pattern C)
# ----------------------------------------------------------------------------------------------
SIM_CFGS = ('CtlDoc_sim.cfg', 'CtlDoc_sim2.cfg', 'CtlDoc_sim.cfg', 'CtlDoc_sim3.cfg', 'CtlDoc_sim4.cfg')


def sim_worker(args):
    k, sd, num, depth, outdir = args
    d = os.path.join(SPEC, 'doc')
    os.makedirs(outdir, exist_ok=True)
    extra = ['-simulate', 'file=%s/tr,num=%d' % (outdir, num), '-depth', str(depth), '-seed', str(sd)]
    r = tlc.run(d, 'CtlDoc', SIM_CFGS[k % len(SIM_CFGS)], workers=1, timeout=900, extra=extra, tag='CtlDoc-sim%d' % k, heap='2g')
    states = []
    for fn in sorted(os.listdir(outdir)):
        with open(os.path.join(outdir, fn)) as f:
            text = f.read()
        i = text.rfind('\nSTATE_')
        if i < 0:
            continue
        body = text[i:].split('==', 1)[1]
        body = body.split('\n\n')[0]
        states.append(tlc.parse_state(body.strip('\n')))
    return states, r.generated, (r.out[-1500:] if not states else '')


def simulate_docs(wd, sd, total, procs=12, depth=60):
    per = (total + procs - 1) // procs
    jobs = [(k, sd * 1000 + k + 1, per, depth, os.path.join(wd, 'sim%d' % k)) for k in range(procs)]
    with mp.get_context('fork').Pool(procs) as pool:
        parts = pool.map(sim_worker, jobs)
    states = [s for p in parts for s in p[0]]
    if len(states) < total // 2:
        raise MachineryError('CtlDoc simulation produced %d documents of %d\n%s' % (len(states), total, parts[0][2]))
    return states, sum(p[1] for p in parts)


def sweep_docs(wd, cfg):
    """every finished document within the bounds of cfg: TLC enumerates the reachable states (-dump)"""
    d = os.path.join(SPEC, 'doc')
    dump = os.path.join(wd, cfg.replace('.cfg', '') + '.dump')
    r = tlc.run(d, 'CtlDoc', cfg, workers=4, timeout=900, extra=['-dump', dump], tag='CtlDoc-sweep', heap='4g')
    tlc.check_machinery(r, 'CtlDoc/' + cfg)
    if not os.path.isfile(dump):
        dump += '.dump'
    with open(dump) as f:
        text = f.read()
    states = []
    for blk in re.split(r'^State \d+:\n', text, flags=re.M)[1:]:
        if '/\\ closed = TRUE' in blk:
            states.append(tlc.parse_state(blk.strip('\n')))
    if len(states) < 100:
        raise MachineryError('CtlDoc sweep: only %d finished documents' % len(states))
    return states, r


# ----------------------------------------------------------------------------------------------
# driving the real tools
# ----------------------------------------------------------------------------------------------
def place(doc_len, rnd):
    s = rnd.choice(STARTS)
    return 65536 - doc_len if s == 'top' else s


def legs_for(doc, rnd, nlegs):
    """option vectors of the round trips of one document"""
    legs = []
    dots = docdrv.has_dots(doc)
    for j in range(nlegs):
        so = rnd.choice(docdrv.SNA_OPTS)
        co = list(rnd.choice(docdrv.CTL_OPTS))
        if j == 0 and '-k' not in co:
            co = ['-k'] + co
        if j == 1 and not dots:
            co = [o for o in co if o != '-k']
        if dots and '-k' not in co:
            co = ['-k'] + co              # without -k line breaks are not kept: A = B cannot be claimed
        tail = doc['end'] < 65536 and rnd.random() < 0.35
        style = rnd.choice(('dec', 'dec', 'hex', 'mixed'))
        legs.append((so, co, tail, style))
    return legs


def drive_worker(args):
    k, jobs, wd = args
    cbuild.repo_only()
    sub = os.path.join(wd, 'w%d' % k)
    os.makedirs(sub, exist_ok=True)
    out = []
    for (tag, src, doc, sd, so, co, tail, style) in jobs:
        case, dbg = docdrv.make_case(sub, tag, doc, sd, so, co, tail, style)
        case['src'] = src
        case['size'] = len(json.dumps([case[f] for f in CASE_FIELDS], separators=(',', ':')))
        case['feat'] = docdrv.features(doc)
        case['dbg'] = {'ctl0': dbg['ctl0'], 'sna_opts': dbg['sna_opts'], 'ctl_opts': dbg['ctl_opts'], 'tail': tail,
                       'start': dbg['start'], 'mem': dbg['mem'], 'end': doc['end'],
                       'A': dbg['A'][:5000], 'ctl1': dbg['ctl1'][:5000], 'B': dbg['B'][:5000]}
        out.append(case)
    return out


def drive(wd, jobs, procs=16):
    chunks = [(k, jobs[k::procs], wd) for k in range(procs)]
    with mp.get_context('fork').Pool(procs) as pool:
        parts = pool.map(drive_worker, chunks)
    cases = [c for p in parts for c in p]
    cases.sort(key=lambda c: c['tag'])
    return cases


# ----------------------------------------------------------------------------------------------
# judging
# ----------------------------------------------------------------------------------------------
RE_ITEM = re.compile(r'^(ctl1|B)-(lost|added) ([a-z-]+):([a-z]+)((?::in-group)?) #(-?\d+) @(\d+)$')


def key_of(clause, case):
    m = RE_ITEM.match(clause)
    if m:
        stage, verb, kind, how, ing = m.group(1, 2, 3, 4, 5)
        if verb == 'added':
            v = 'extra'
        elif how in ('layout', 'changed', 'extent'):
            v = 'changed'
        else:
            v = 'lost'
        q = ':' + how if how in ('layout', 'extent', 'blank') else ''
        return 'rt:%s-%s:%s%s%s' % (stage, v, kind, q, ing)
    if clause.startswith('A!=B'):
        return 'rt:A!=B:text'
    if clause.startswith('ctl2!=ctl1'):
        return 'rt:ctl2!=ctl1:text'
    if clause == 'tool-error':
        return 'rt:tool-error:' + (case['err'].split(' ')[0] if case['err'] else '')
    return 'rt:' + clause


def judge(rep, cases, wd, name='CtlDocCases', budget=24000000):
    fails, drift = [], []
    lo = 0
    while lo < len(cases):
        hi, size = lo, 0
        while hi < len(cases) and (hi == lo or size + cases[hi]['size'] < budget):
            size += cases[hi]['size']
            hi += 1
        part = cases[lo:hi]
        slim = [{k: c[k] for k in CASE_FIELDS} for c in part]
        r, fs = tlc.judge('doc', 'CtlDocCases', 'CtlDocCases.cfg', slim, casefile=os.path.join(wd, 'cases%d.json' % lo))
        rep.add_tlc(r, '%s[%d:%d]' % (name, lo, lo + len(part)), traces=len(part))
        fails += [(lo + i, clause) for i, clause in fs]
        for tag, rest in r.notes:
            if tag == 'DRIFT':
                m = re.match(r'(\d+), "(.*)"', rest or '')
                if m:
                    drift.append((lo + int(m.group(1)) - 1, m.group(2)))
        lo = hi
    return fails, drift


def report_fails(rep, cases, fails):
    for i, clause in fails:
        c = cases[i]
        d = c['dbg']
        rep.violation(key_of(clause, c),
                      '%s [%s] sna2skool %s, skool2ctl -b %s%s: %s %s\nctl0:\n%s'
                      % (c['tag'], c['src'], ' '.join(d['sna_opts']), ' '.join(d['ctl_opts']), ' (no -e: final i block is an entry)'
                         if d['tail'] else '', clause, c['err'] or c['warn'], '\n'.join(d['ctl0'][:60])),
                      dict(d, clause=clause))


NEEDED = (['block:' + t for t in 'bcgistuw'] + ['sub:' + t for t in 'BCSTW']
          + ['title', 'desc', 'desc-multi', 'reg', 'reg-prefix', 'reg-delim', 'start', 'mid', 'end', 'icmt', 'icmt-multi', 'M',
             'blank', 'dots', 'brace', 'dot-lines', 'colon', 'lengths', 'base-data', 'base-code', 'base-two', 'edir', 'adir',
             'ig-t', 'ig-d', 'ig-r', 'ig-m', 'ig-i', 'ig-e', 'hdr', 'ftr'])


LEGS = ['leg:sna2skool -H', 'leg:sna2skool -l', 'leg:sna2skool -w', 'leg:sna2skool (no option)', 'leg:skool2ctl -k',
        'leg:skool2ctl -h', 'leg:skool2ctl -l', 'leg:skool2ctl (-b only)', 'leg:no -e (final i block is an entry)', 'leg:-s -e']


def run(tier):
    rep = Report(PID, tier)
    wd = workdir('c03')
    sd = seed()
    cbuild.repo_only()
    # (A) the document specification
    for cfg in (('CtlDoc_mc.cfg',) if tier == 'quick' else ('CtlDoc_mc.cfg', 'CtlDoc_mc2.cfg')):
        r = tlc.model_check('doc', 'CtlDoc', cfg, coverage=False)
        rep.add_tlc(r, cfg[:-4])
        rep.model_violation(r, cfg[:-4])
    # (B) documents: TLC behaviours + random builder
    nsim, nrand, nlegs = (220, 160, 2) if tier == 'quick' else (2000, 2500, 3)
    states, gen = simulate_docs(wd, sd, nsim, procs=12 if tier == 'quick' else 16)
    log('C03: %d documents from CtlDoc behaviours (%.0fs)' % (len(states), rep.timer.s()))
    rnd = random.Random(sd * 7919 + 17)
    jobs = []
    for n, st in enumerate(states):
        if not st['blocks'] or st['blocks'][-1]['ty'] == 'i':
            continue
        drnd = random.Random(sd * 100003 + n)
        doc = docdrv.doc_from_state(st, drnd, place(st['top'], drnd))
        for j, (so, co, tail, style) in enumerate(legs_for(doc, drnd, nlegs)):
            jobs.append(('t%05d.%d' % (n, j), 'CtlDoc', doc, sd * 100003 + n * 7 + j, so, co, tail, style))
    # every small document: (1) one entry b/c, up to three one-statement sub-blocks B/C [W], at most one I / M [N]
    # comment; (2) four [five] one-statement sub-blocks B/C and one M comment (quick, and five sub-blocks: only M
    # ranges that have a neighbour on both sides - ranges at the edges of an entry are in (1) for up to three sub-blocks)
    def inner(st):
        m = st['notes'][0]
        return m['a'] > 0 and m['e'] < st['top']
    if tier == 'quick':
        sweeps = (('CtlDoc_sweep.cfg', lambda st: True), ('CtlDoc_sweep3.cfg', lambda st: len(st['subs']) == 4 and st['notes'] and inner(st)))
    else:
        sweeps = (('CtlDoc_sweep2.cfg', lambda st: True), ('CtlDoc_sweep3.cfg', lambda st: len(st['subs']) == 4 and st['notes']),
                  ('CtlDoc_sweep4.cfg', lambda st: len(st['subs']) == 5 and st['notes'] and inner(st)))
    for si, (cfg, keep) in enumerate(sweeps):
        sweep, r = sweep_docs(wd, cfg)
        sweep = [st for st in sweep if keep(st)]
        rep.add_tlc(r, cfg[:-4])
        log('C03: %d documents from the exhaustive sweep %s (%.0fs)' % (len(sweep), cfg, rep.timer.s()))
        if len(sweep) < 100:
            raise MachineryError('C03: sweep %s yields only %d documents' % (cfg, len(sweep)))
        for n, st in enumerate(sweep):
            doc = docdrv.doc_from_state(st, random.Random(n), 32768, plain=True)
            for j, co in enumerate(([], ['-k'])):
                if j == 0 or (tier != 'quick' and si < 2) or n % 4 == sd % 4:
                    jobs.append(('s%d%05d.%d' % (si, n, j), 'sweep', doc, n, [], co, bool(n % 2), 'dec'))
    for n in range(nrand):
        dsd = sd * 1000003 + n
        doc = docdrv.random_doc(dsd)
        drnd = random.Random(dsd)
        for j, (so, co, tail, style) in enumerate(legs_for(doc, drnd, nlegs)):
            jobs.append(('r%05d.%d' % (n, j), 'builder', doc, dsd * 7 + j, so, co, tail, style))
    log('C03: %d jobs (%.0fs)' % (len(jobs), rep.timer.s()))
    cases = drive(wd, jobs)
    log('C03: %d round trips driven (%.0fs)' % (len(cases), rep.timer.s()))
    feats = collections.Counter()
    for c in cases:
        rep.count((c['src'], c['tag'].split('.')[0], tuple(c['dbg']['sna_opts']), tuple(c['dbg']['ctl_opts']), c['dbg']['tail']))
        feats.update(c['feat'])
    for c in cases:
        d = c['dbg']
        feats.update(['leg:sna2skool ' + o for o in d['sna_opts'] if o.startswith('-')] or ['leg:sna2skool (no option)'])
        feats.update(['leg:skool2ctl ' + o for o in d['ctl_opts']] or ['leg:skool2ctl (-b only)'])
        feats.update(['leg:no -e (final i block is an entry)'] if d['tail'] else ['leg:-s -e'])
    missing = [f for f in NEEDED + LEGS if not feats.get(f)]
    if missing:
        raise MachineryError('C03: document features never generated: %s' % ', '.join(missing))
    # (C) TLC judges
    fails, drift = judge(rep, cases, wd)
    report_fails(rep, cases, fails)
    rep.drift = len(drift)
    dk = collections.Counter(re.sub(r' #.*', '', t) for _, t in drift)
    if len(drift) > len(cases) // 10:
        raise MachineryError('C03: %d of %d cases drift on the ctl0 -> A leg (%s): the generator is off'
                             % (len(drift), len(cases), dict(dk.most_common(5))))
    rep.extra['drift_kinds'] = dict(dk)
    rep.extra['drift_samples'] = [{'tag': cases[i]['tag'], 'what': t, 'ctl0': cases[i]['dbg']['ctl0'][:40],
                                   'opts': cases[i]['dbg']['sna_opts'] + cases[i]['dbg']['ctl_opts'],
                                   'A': cases[i]['dbg']['A'][:1500].split('\n')} for i, t in drift[:3]]
    rep.extra['features'] = dict(sorted(feats.items()))
    rep.extra['fail_clauses'] = dict(collections.Counter(re.sub(r' #.*', '', cl) for _, cl in fails).most_common(20))
    ok = [c for i, c in enumerate(cases) if i not in {f[0] for f in fails}]
    for c in ok[:2]:
        rep.sample({'tag': c['tag'], 'ctl0': c['dbg']['ctl0'][:25], 'sna2skool': c['dbg']['sna_opts'], 'skool2ctl': c['dbg']['ctl_opts'],
                    'ctl1_head': c['dbg']['ctl1'][:600]})
    rep.rule = ('document (entries b/c/g/i/s/t/u/w, sub-blocks B/C/S/T/W with statement lengths and bases, title, D/R/N/E '
                'paragraphs, instruction-level comments incl. blank / dots-only / braces / dot+colon lines, M groups, ASM '
                'directives of every kind, @ignoreua for t/d/r/m/i/e, > header/footer blocks) generated by TLC -simulate from '
                'CtlDoc.tla or by the random builder x sna2skool options (-H -l -w) x skool2ctl options (-b; -k -h -l) x '
                'with/without -e; distinct_nontrivial = distinct (document, option vector)')
    rep.assumptions = ['memory is synthesised from the document so that every requested base is renderable (printable '
                       'characters for c, no m/c on index displacements)',
                       'without -k only documents without dot/colon line structure are claimed to round-trip textually',
                       'comment braces: every { precedes every } (the opposite order is the open C18 finding)',
                       'a trailing ignored block is never generated (it is the terminator of the control file)',
                       'not generated: L (loop) directives, M repeat flag, ASM block directives inside non-entry blocks, '
                       'statements inside i blocks, #TABLE/#LIST markup (C18 covers wrapping)']
    rmworkdir('c03')
    return rep.finish()


def replay(path):
    with open(path) as f:
        rp = json.load(f)['replay']
    cbuild.repo_only()
    wd = workdir('c03-replay')
    doc = {'start': rp['start'], 'end': rp['end']}
    res = docdrv.round_trip(wd, 'replay', doc, rp['mem'], rp['ctl0'], rp['sna_opts'], rp['ctl_opts'], rp['tail'])
    it = docdrv.Interner()
    hexm = int('-H' in rp['sna_opts'])
    case = {'err': res['err'], 'kl': int('-k' in rp['ctl_opts']), 'hexm': hexm, 'end': rp['end'],
            'warn': ' '.join(res['warn'].split())[:200], 'D': [],
            'A': docdrv.skool_struct(it, res['A'], rp['end']), 'B': docdrv.skool_struct(it, res['B'], rp['end']),
            'C': docdrv.ctl_struct(it, res['ctl1']),
            'hA': docdrv.line_hashes(res['A']), 'hB': docdrv.line_hashes(res['B']),
            'hC1': docdrv.line_hashes(res['ctl1']), 'hC2': docdrv.line_hashes(res['ctl2'])}
    r, fails = tlc.judge('doc', 'CtlDocCases', 'CtlDocCases.cfg', [case], casefile=os.path.join(wd, 'case.json'))
    print('--- ctl0\n%s\n--- A\n%s--- ctl1\n%s--- B\n%s' % ('\n'.join(rp['ctl0']), res['A'], res['ctl1'], res['B']))
    for _, clause in fails:
        print('VIOLATION property=%s %s' % (PID, clause))
    if not fails:
        print('OK property=%s replay holds' % PID)
    return 1 if fails else 0
