"""C16 - every internal link and asset reference of the HTML disassembly resolves (DESIGN §4 C16).

(A) Site.tla is model-checked: for every small abstract site the documented file set + link rule satisfies
    NoDangling / FragmentExists / WrittenOnce / EntryAnchorsUnique / ExpectedExist, and Rel/Resolve are inverse.
(B) Random abstract sites are rendered to skool + ref files and run through the real skool2html.main
    (drivers/sitedrv.py); the recorded sequence of file writes / copies with html.parser-tokenised ids and
    links is replayed by SiteTrace.tla as WriteFile / CopyResource actions; TLC evaluates WrittenOnce after
    every step and the other clauses + the expected file set on the final tree.
"""
import json
import multiprocessing as mp
import os
from collections import Counter

from ..lib import cbuild, tlc
from ..lib.common import workdir, rmworkdir, seed, log, MachineryError
from ..lib.report import Report
from ..drivers import sitedrv

PID = 'C16'
HEX = '0123456789abcdef'


# ---- helpers used only for violation keys and vacuity counters (never for the verdict) -------------------
def _fmt(fmt, base, a):
    k = fmt['kind']
    if k == 'd' or (k == 'b' and base != 16):
        body = str(a)
    elif k == 'x':
        body = '%04x' % a
    elif k in 'Xb':
        body = '%04X' % a
    else:
        body = '%05d' % a
    return fmt['pre'] + body + fmt['suf']


def file_kinds(site):
    """path (as 'a/b/c') -> kind, for the documented HTML files of the abstract site."""
    kinds = {'/'.join(site['index']): 'index'}
    for m in site['maps']:
        kinds['/'.join(m['path'])] = 'map'
    for p in site['pages']:
        kinds['/'.join(p['path'])] = 'page'
    for ci, c in enumerate(site['codes']):
        oc = 'oc' if ci else ''
        if ci:
            kinds['/'.join(c['map'])] = 'ocmap'
        kinds['/'.join(c['asm1'])] = oc + 'asm1'
    if not site['single']:
        for e in site['entries']:
            if e['t'] != 'i':
                c = site['codes'][e['c'] - 1]
                kinds['/'.join(c['dir'] + [_fmt(site['ffmt'], site['base'], e['a'])])] = ('oc' if e['c'] > 1 else '') + 'asm'
    for r in site['res']:
        kinds['/'.join(r)] = 'res'
    return kinds


def kind_of(kinds, path):
    k = kinds.get(path)
    if k:
        return k
    ext = path.rsplit('.', 1)[-1].lower() if '.' in path else ''
    return {'png': 'img', 'gif': 'img', 'wav': 'audio', 'flac': 'audio', 'mp3': 'audio', 'ogg': 'audio',
            'css': 'css', 'js': 'js', 'html': 'html?', 'htm': 'html?'}.get(ext, 'other')


def resolve(src, href):
    if not href:
        return src
    stack = src.split('/')[:-1]
    for c in href:
        if c == '.':
            continue
        if c == '..':
            if not stack:
                return '..'
            stack.pop()
        else:
            stack.append(c)
    return '/'.join(stack)


def code_of(site, path):
    """index of the disassembly a documented page belongs to (None for pages of no disassembly)"""
    for ci, c in enumerate(site['codes']):
        if path == '/'.join(c['asm1']) or path == '/'.join(c['map']):
            return ci
    if not site['single']:
        for e in site['entries']:
            c = site['codes'][e['c'] - 1]
            if e['t'] != 'i' and path == '/'.join(c['dir'] + [_fmt(site['ffmt'], site['base'], e['a'])]):
                return e['c'] - 1
    return None


def nondefault_anchor(site):
    """AddressAnchor makes something else of an address than the decimal number"""
    return any(_fmt(site['afmt'], site['base'], a) != str(a) for a in (7, 40000))


def ranchor_target(site, rec):
    """file ('a/b/c') that a #R macro with an explicit anchor (meta['ranchors'] record) links to"""
    c = site['codes'][rec['tc']]
    if site['single']:
        return '/'.join(c['asm1'])
    return '/'.join(c['dir'] + [_fmt(site['ffmt'], site['base'], rec['ea'])])


def violation_key(t, fail):
    """'clause|...' from TLC -> (stable key naming the class of input, description)."""
    site, meta = t['site'], t['meta']
    kinds = file_kinds(site)
    parts = fail.split('|')
    clause = parts[0]
    mode = 'single' if site['single'] else 'multi'
    if clause in ('dangling', 'fragment'):
        src, to, frag = parts[1], parts[2], parts[3]
        sk, tk = kind_of(kinds, src), kind_of(kinds, to)
        what = ''
        if clause == 'dangling' and not site['single']:
            # the page an entry point would have if it were an entry of its own: its @remote declaration was not honoured
            for late in meta.get('late_eps', ()):
                for yidx, ea, ep in late:
                    if to == '/'.join(site['codes'][yidx]['dir'] + [_fmt(site['ffmt'], site['base'], ep)]):
                        what = ':remote-entry-point-of-repeated-directive'
        if clause == 'fragment':
            ci = code_of(site, src)
            what = ':other-id'
            anchors = {}
            for e in site['entries']:
                for a in e['ins']:
                    anchors.setdefault(_fmt(site['afmt'], site['base'], a), set()).add(e['c'] - 1)
            rem = {_fmt(site['afmt'], site['base'], a) for a in (meta['remotes'][ci] if ci is not None else ())}
            tci = code_of(site, to)
            if to == src and frag in rem and site['single'] and ci not in anchors.get(frag, ()):
                what = ':remote-operand'              # anchor of an @remote address, looked for on the linking page itself
            elif frag in anchors and tci in anchors[frag]:
                what = ':anchor-of-instruction'       # the instruction exists in the target disassembly, its anchor does not
            elif frag in anchors:
                what = ':anchor-of-other-code'
            for rec in meta.get('ranchors', ()):
                # the fragment is the explicit anchor of a generated #R macro, exactly as written in the source
                if what != ':remote-operand' and not site['single'] and rec['txt'] == frag and ranchor_target(site, rec) == to:
                    where = 'entry-address' if rec['a'] == rec['ea'] else 'entry-point'
                    what = ':R%s-%s#%s-anchor-as-written' % ('@remote' if rec['tc'] != rec['ctx'] else '', where, rec['kind'])
                    break
            if what == ':remote-operand':
                return 'fragment:single-page:remote-operand', ('fragment: %s links to %s#%s, the anchor of an @remote address '
                                                               'that lives on another page' % (src, to, frag))
        return '%s:%s->%s:%s%s' % (clause, sk, tk, mode, what), '%s: %s links to %s%s' % (clause, src, to, '#' + frag if frag else '')
    if clause == 'expected-missing':
        return 'expected-missing:%s:%s' % (kind_of(kinds, parts[1]), mode), 'expected file %s was not written' % parts[1]
    if clause in ('anchor-missing', 'anchor-duplicate'):
        return '%s:%s:%s' % (clause, kind_of(kinds, parts[1]), mode), '%s: id %s occurs %s times in %s' % (clause, parts[2], parts[3], parts[1])
    if clause == 'written-twice':
        return 'written-twice:%s:%s' % (kind_of(kinds, parts[1]), mode), 'path %s written twice in one run' % parts[1]
    return clause, fail


def vacuity_classes(t, cnt):
    """Counts the interesting link classes of one recorded site."""
    site = t['site']
    kinds = file_kinds(site)
    links = {}           # target -> set(src)
    maps_listing = {}    # entry file -> set of map paths
    for e in t['ev']:
        if e[0] != 'w':
            continue
        src = '/'.join(e[1])
        sk = kind_of(kinds, src)
        for href, frag in e[3]:
            to = resolve(src, href)
            tk = kind_of(kinds, to)
            links.setdefault(to, set()).add(src)
            if sk in ('map',) and tk in ('asm', 'asm1'):
                maps_listing.setdefault((to, frag), set()).add(src)
            if sk.startswith('oc') and tk in ('asm', 'asm1'):
                cnt['link other-code page -> main entry'] += 1
            if sk in ('asm', 'asm1', 'map', 'page') and tk in ('ocasm', 'ocasm1'):
                cnt['link main page -> other-code entry'] += 1
            if frag and tk in ('asm', 'ocasm'):
                cnt['link to an anchor inside an entry page'] += 1
            if frag and tk in ('asm1', 'ocasm1'):
                cnt['link to an anchor on a single page'] += 1
            if frag and tk in ('map', 'ocmap'):
                cnt['link to a map row anchor'] += 1
            if frag and tk == 'page':
                cnt['link to a box page anchor'] += 1
            if tk == 'audio':
                cnt['audio reference'] += 1
            ac = t['meta'].get('assets', {}).get(to.rsplit('/', 1)[-1])
            if ac:
                cnt['asset reference: ' + ac] += 1
                if tk in ('audio', 'img') and src.count('/') != to.count('/'):
                    cnt['asset reference: %s from a page at another depth' % ac.split(':')[0]] += 1
    depth = lambda p: p.count('/')
    if any(len({depth(m) for m in ms}) > 1 for ms in maps_listing.values()):
        cnt['site: one entry listed by map pages at different depths'] += 1
    for to, srcs in links.items():
        if kind_of(kinds, to) == 'img' and len({depth(s) for s in srcs}) > 1:
            cnt['site: one image referenced from pages at different depths'] += 1
            break
    for to, srcs in links.items():
        if kind_of(kinds, to) in ('css', 'js', 'res') and len({depth(s) for s in srcs}) > 2:
            cnt['site: css/js referenced from three depths'] += 1
            break
    m = t['meta']
    # links that #R macros with an explicit anchor produced: a recorded link to the page of the containing entry whose
    # fragment is either the anchor as written or the AddressAnchor form of the address it names (page per entry), or
    # the anchor of the addressed instruction (single page, where the explicit anchor is dropped)
    seen, seen_from = set(), set()
    for e in t['ev']:
        if e[0] == 'w':
            src = '/'.join(e[1])
            sc = code_of(site, src) or 0          # pages of no disassembly are expanded by the main one
            for href, frag in e[3]:
                seen.add((resolve(src, href), frag))
                seen_from.add((sc, resolve(src, href), frag))
    # links (from #R macros and operands in disassembly X) to entry points of a remote entry that only the 2nd or 3rd
    # @remote directive for that entry in X's skool file names; counted whether or not they lead to the entry's page
    for x, late in enumerate(m.get('late_eps', ())):
        for yidx, ea, ep in late:
            c = site['codes'][yidx]
            frag = _fmt(site['afmt'], site['base'], ep)
            if site['single']:
                hit = (x, '/'.join(c['asm1']), frag) in seen_from
            else:
                hit = ((x, '/'.join(c['dir'] + [_fmt(site['ffmt'], site['base'], ea)]), frag) in seen_from
                       or (x, '/'.join(c['dir'] + [_fmt(site['ffmt'], site['base'], ep)]), '') in seen_from)
            if hit:
                cnt['link to an entry point named only by a repeated @remote directive' + (', single page' if site['single'] else '')] += 1
    # custom pages that were written into different directories with an identical JavaScript= value
    written = {'/'.join(e[1]) for e in t['ev'] if e[0] == 'w'}
    byval = {}
    for pid, (path, val) in m.get('page_js', {}).items():
        norm = '/'.join(c for c in path.split('/') if c not in ('', '.'))
        if norm in written:
            byval.setdefault(val, set()).add(norm.rpartition('/')[0])
            if set(val.split(';')) & set(m.get('global_js', ())):
                cnt['page: JavaScript value repeats a [Game] JavaScript file'] += 1
    ndirs = max([len(d) for d in byval.values()] or [0])
    if ndirs > 1:
        cnt['site: pages in different directories with the same JavaScript value'] += 1
        cnt['site: pages in different directories with the same JavaScript value, ' + ('single page' if site['single'] else 'page per entry')] += 1
        if len({d.count('/') + (d != '') for d in max(byval.values(), key=len)}) > 1:
            cnt['site: pages at different depths with the same JavaScript value'] += 1
    if len(byval) > 1:
        cnt['site: pages with different JavaScript values'] += 1
    if any(n > 1 for n in m.get('ndirectives', ())):
        cnt['site: several @remote directives in one skool file'] += 1
    nd = nondefault_anchor(site)
    for rec in m.get('ranchors', ()):
        to = ranchor_target(site, rec)
        numeric = rec['kind'] in ('entry', 'self', 'other')
        if site['single']:
            if (to, _fmt(site['afmt'], site['base'], rec['a'])) not in seen:
                continue
            if numeric and nd:
                cnt['#R link: explicit numeric anchor, non-default AddressAnchor, single page'] += 1
            continue
        frags = {rec['txt']} | ({_fmt(site['afmt'], site['base'], rec['v'])} if rec['v'] is not None else set())
        if not any((to, f) in seen for f in frags):
            continue
        cnt['#R link: explicit anchor of kind ' + rec['kind']] += 1
        remote = rec['tc'] != rec['ctx']
        if numeric and nd:
            cnt['#R link: explicit numeric anchor, non-default AddressAnchor'] += 1
            if rec['kind'] == 'entry' and rec['a'] != rec['ea']:
                cnt['#R link: entry point%s with the entry address as anchor, non-default AddressAnchor' % (' @remote' if remote else '')] += 1
            if rec['kind'] == 'entry' and rec['a'] == rec['ea']:
                cnt['#R link: entry address%s with itself as anchor, non-default AddressAnchor' % (' @remote' if remote else '')] += 1
        if rec['kind'] == 'entry' and not nd and rec['txt'].startswith('$'):
            cnt['#R link: $hex anchor for the entry address, default AddressAnchor'] += 1
        if rec['kind'] == 'fmt' and nd:
            cnt['#R link: anchor written in the AddressAnchor form'] += 1
    cnt['site: single page' if site['single'] else 'site: page per entry'] += 1
    if len(m['runs']) > 1:
        cnt['site: two runs with complementary -w'] += 1
    elif m['runs'][0] != sitedrv.ALLFLAGS:
        cnt['site: one run with a -w subset'] += 1
    if site['afmt']['kind'] != 'd':
        cnt['site: non-default AddressAnchor'] += 1
    if len(site['codes']) > 1:
        cnt['site: other-code disassemblies'] += 1
    for o in m['opts']:
        cnt['option ' + o] += 1


ASSET_CLASSES = ['image: name without extension', 'image: lower-case .png extension', 'image: non-lower-case .png extension',
                 'image: other extension (.png is appended)', 'image: name with sub-directory, no extension',
                 'image: name with sub-directory, non-lower-case .png extension',
                 'audio: existing file, lower-case .wav', 'audio: delays, lower-case .wav', 'audio: delays, leading /, lower-case .wav',
                 'audio: alternative format exists', 'audio: delays, non-lower-case .wav', 'audio: delays, leading /, non-lower-case .wav',
                 'audio: delays, sub-directory', 'audio: delays, sub-directory, non-lower-case .wav',
                 'audio: existing file, non-lower-case .wav', 'audio: delays, no .wav extension, existing file',
                 'audio: existing file, no .wav extension', 'audio: alternative format exists, non-lower-case .wav named',
                 'image from a page at another depth', 'audio from a page at another depth']

REQUIRED = ['asset reference: ' + c for c in ASSET_CLASSES] + ['link other-code page -> main entry', 'link main page -> other-code entry', 'link to an anchor inside an entry page',
            'link to an anchor on a single page', 'link to a map row anchor', 'link to a box page anchor', 'audio reference',
            'site: one entry listed by map pages at different depths', 'site: one image referenced from pages at different depths',
            'site: css/js referenced from three depths', 'site: single page', 'site: page per entry',
            'site: two runs with complementary -w', 'site: one run with a -w subset', 'site: non-default AddressAnchor',
            'site: other-code disassemblies',
            'link to an entry point named only by a repeated @remote directive',
            'link to an entry point named only by a repeated @remote directive, single page',
            'site: several @remote directives in one skool file',
            'site: pages in different directories with the same JavaScript value',
            'site: pages in different directories with the same JavaScript value, single page',
            'site: pages in different directories with the same JavaScript value, page per entry',
            'site: pages at different depths with the same JavaScript value', 'site: pages with different JavaScript values',
            'page: JavaScript value repeats a [Game] JavaScript file',
            '#R link: explicit numeric anchor, non-default AddressAnchor',
            '#R link: explicit numeric anchor, non-default AddressAnchor, single page',
            '#R link: entry point with the entry address as anchor, non-default AddressAnchor',
            '#R link: entry point @remote with the entry address as anchor, non-default AddressAnchor',
            '#R link: entry address with itself as anchor, non-default AddressAnchor',
            '#R link: entry address @remote with itself as anchor, non-default AddressAnchor',
            '#R link: $hex anchor for the entry address, default AddressAnchor',
            '#R link: anchor written in the AddressAnchor form',
            '#R link: explicit anchor of kind entry', '#R link: explicit anchor of kind self', '#R link: explicit anchor of kind other',
            '#R link: explicit anchor of kind fmt', '#R link: explicit anchor of kind custom', 'option -1', 'option -a', 'option -C', 'option -D', 'option -H', 'option -l', 'option -u']


def judge_traces(rep, traces, wd, name):
    """Returns {trace index: [(step, 'clause|detail')]} and the number of sites with anchor drift."""
    failed, drift = {}, 0
    batch, size, start = [], 0, 0
    batches = []
    for i, t in enumerate(traces):
        s = json.dumps({'site': t['site'], 'ev': t['ev']}, separators=(',', ':'))
        if batch and size + len(s) > 30_000_000:
            batches.append((start, batch))
            batch, size, start = [], 0, i
        batch.append(s)
        size += len(s)
    if batch:
        batches.append((start, batch))
    for start, batch in batches:
        path = os.path.join(wd, 'sites.json')
        with open(path, 'w') as f:
            f.write('[' + ','.join(batch) + ']')
        r = tlc.run(os.path.join(tlc.SPEC, 'doc'), 'SiteTrace', 'SiteTrace.cfg', env={'CASES': path}, tag='SiteTrace',
                    timeout=3000, heap='12g')
        tlc.check_machinery(r, 'SiteTrace')
        if r.violated:
            rep.model_violation(r, 'SiteTrace')
        rep.add_tlc(r, name, traces=len(batch))
        part = {}
        for code, clause in r.fails:
            part.setdefault(code // 10000 - 1, []).append((code % 10000, clause))
        expect = 0
        for i in range(len(batch)):
            n = len(traces[start + i]['ev'])
            expect += (part[i][0][0] if i in part else n) + 1
        if r.distinct != expect:
            raise MachineryError('SiteTrace: expected %d states, TLC found %d\n%s' % (expect, r.distinct, r.out[-3000:]))
        for i, lst in part.items():
            failed[start + i] = sorted(set(lst))
        drift += len({(k, v.split(',')[0]) for k, v in r.notes if k in ('DRIFT', 'MODEL')})
        for k, v in r.notes:
            if k in ('DRIFT', 'MODEL'):
                tid = int(v.split(',')[0])
                log('NOTE C16 %s: site %s %s' % ('anchor drift' if k == 'DRIFT' else 'page differs from documented content', traces[start + tid - 1]['key'], v))
    return failed, drift


def run(tier):
    rep = Report(PID, tier)
    wd = workdir('c16')
    sd = seed()
    cbuild.repo_only()
    # (A) the documented site generator satisfies the invariants (sanity of the specification)
    cfg = 'Site_mcq.cfg' if tier == 'quick' else 'Site_mc.cfg'
    r = tlc.model_check('doc', 'Site', cfg, timeout=3000, coverage=(tier == 'quick'))
    rep.add_tlc(r, cfg)
    rep.model_violation(r, cfg)
    never = [a for a, (d, n) in r.coverage.items() if n == 0]
    rep.extra['mc_actions_never_taken'] = never
    if never or r.depth < 12:
        raise MachineryError('Site %s: actions never taken: %s (depth %d)' % (cfg, never, r.depth))
    if tier != 'quick':
        # #R references with the explicit anchor "address of the containing entry" (the quick cfg has them as well)
        ra = tlc.model_check('doc', 'Site', 'Site_mca.cfg', timeout=3000, coverage=False)
        rep.add_tlc(ra, 'Site_mca.cfg')
        rep.model_violation(ra, 'Site_mca.cfg')
        # the invariants are able to fail: the model of skoolkit's single-page remote operand links violates one
        r2 = tlc.model_check('doc', 'Site', 'Site_dev.cfg', timeout=3000, coverage=False)
        rep.add_tlc(r2, 'Site_dev.cfg')
        rep.extra['deviation_model_violates'] = r2.violated
        if 'DocFragmentExists' not in r2.violated:
            raise MachineryError('Site_dev.cfg: the deviation model was expected to violate DocFragmentExists')
    # (B) recorded sites of the real skool2html
    n = 480 if tier == 'quick' else 8000
    seeds = [sd * 1000003 + i for i in range(n)]
    chunks = [(seeds[k::64], wd) for k in range(64)]
    with mp.get_context('fork').Pool(16) as pool:
        parts = pool.map(sitedrv.worker, chunks)
    traces = sorted((t for p in parts for t in p), key=lambda t: t['key'])
    log('C16: %d recorded sites, %d events' % (len(traces), sum(len(t['ev']) for t in traces)))
    crashed = [t for t in traces if t['meta']['errors']]
    rep.extra['sites_where_skool2html_raised'] = len(crashed)
    rep.extra['untracked_files'] = sum(t['meta']['untracked'] for t in traces)
    rep.extra['non_relative_links_ignored'] = sum(t['meta']['skipped_links'] for t in traces)
    # (C) abstract sites built by TLC itself (-simulate of the constructor actions), rendered with nothing but the
    #     abstract content: judged like the others, and page by page compared with the documented content (ModelDiff)
    nsim = 400 if tier == 'quick' else 5000
    rs, behaviours = tlc.simulate('doc', 'Site', 'Site_sim.cfg', os.path.join(wd, 'sim'), num=nsim, depth=40, seed=sd + 1, timeout=1200)
    if rs.violated:
        rep.model_violation(rs, 'Site_sim')
    sims = sitedrv.sim_sites(behaviours)
    uniq, seen = [], set()
    for st in sims:
        k = json.dumps(st, sort_keys=True)
        if k not in seen:
            seen.add(k)
            uniq.append(st)
    if len(uniq) < nsim // 10:
        raise MachineryError('C16: only %d usable simulated sites out of %d behaviours\n%s' % (len(uniq), len(behaviours), rs.out[-1500:]))
    chunks = [(uniq[k::32], k * 100000, wd) for k in range(32) if uniq[k::32]]
    with mp.get_context('fork').Pool(16) as pool:
        parts = pool.map(sitedrv.sim_worker, chunks)
    simtraces = sorted((t for p in parts for t in p), key=lambda t: t['key'])
    rep.extra['simulated_sites'] = len(simtraces)
    rep.extra['simulated_behaviours'] = len(behaviours)
    log('C16: %d TLC-built sites rendered' % len(simtraces))
    nrand = len(traces)
    traces = traces + simtraces
    failed, drift = judge_traces(rep, traces, wd, 'SiteTrace')
    rep.drift = drift
    rep.extra['model_drift_sites'] = drift
    cnt = Counter()
    for t in traces:
        vacuity_classes(t, cnt)
        rep.count()
        for e in t['ev']:
            if e[0] == 'w' and e[3]:
                rep.nontrivial_count += len(e[3])
    rep.extra['classes'] = dict(sorted(cnt.items()))
    empty = [c for c in REQUIRED if not cnt[c]]
    if empty:
        raise MachineryError('C16 vacuity: no recorded site exercised: %s' % empty)
    t0 = traces[0]
    rep.sample({'key': t0['key'], 'meta': t0['meta'], 'site': t0['site'], 'first_events': t0['ev'][:4]})
    for i, lst in sorted(failed.items()):
        t = traces[i]
        if t['key'].startswith('sim'):
            S = {'runs': [['-q']], 'sources': t['sources']}
        else:
            S = sitedrv.gen_site(int(t['key'][1:]))
        replay = {'seed': t['key'], 'runs': S['runs'], 'sources': {k: (v if isinstance(v, str) else repr(v)) for k, v in S['sources'].items()},
                  'meta': t['meta'], 'site': t['site'], 'failures': [c for _, c in lst],
                  'how': 'write sources to a directory, then for each argv in runs: skool2html.py <argv> -d out game.skool'}
        seen = set()
        for step, fail in lst:
            key, what = violation_key(t, fail)
            if key in seen:
                continue
            seen.add(key)
            extra = (' [skool2html raised: %s]' % t['meta']['errors'][0]) if t['meta']['errors'] else ''
            rep.violation(key, 'site %s (options %s, -w %s): %s%s' % (t['key'], ' '.join(t['meta']['opts']), ','.join(t['meta']['runs']), what, extra), replay)
    rep.rule = ('random abstract sites (2-8 main entries of every type + 0-2 other-code disassemblies, operands/#R (with and without '
                'explicit anchors: the entry address as decimal/$hex number from first instructions and entry points, local and @remote; '
                'other instruction anchors as numbers or in AddressAnchor form; #HTML ids; remote entries declared by 1-3 @remote '
                'directives per entry spread over the skool file with disjoint/overlapping/identical entry-point lists; 0-4 [Page:*] pages '
                'and box pages at different depths sharing JavaScript= values (identical, overlapping, repeating a [Game] file, none)/#LINK/image/audio macros, [Paths] at different depths, AddressAnchor/CodeFiles formats, LinkOperands, -1 -a -C -D/-H -l/-u -o -O -j -T, '
                '-w subsets in one or two runs) rendered and run through real skool2html.main; each site is one trace of '
                'WriteFile/CopyResource events; distinct_nontrivial = number of distinct relative links judged')
    rep.assumptions = ['html.parser tokenisation and URL splitting are trusted projections',
                       'ids count as anchors when they appear as id= on any element or name= on <a>',
                       'a link into a class of files deselected with -w (Excused in Site.tla) is not required to resolve',
                       'explicit #R anchors that the documentation does not promise to exist (a number other than the entry address under an '
                       'AddressAnchor that does not produce that number, a made-up name) are an input error and are not generated',
                       'more anchors for one address than the documented templates attach (Mult) is a violation, fewer (>=1) is drift']
    rmworkdir('c16')
    return rep.finish()


def replay(path):
    with open(path) as f:
        d = json.load(f)
    rp = d['replay']
    wd = workdir('c16-replay')
    if str(rp['seed']).startswith('sim'):
        S = dict(seed=0, runs=rp['runs'], sources=rp['sources'], tla=d.get('site') or rp.get('site'), meta=rp['meta'])
    else:
        S = sitedrv.gen_site(int(str(rp['seed']).lstrip('s')))
    t = sitedrv.run_site(S, os.path.join(wd, 'site'))
    rep = Report(PID, 'replay')
    failed, _ = judge_traces(rep, [t], wd, 'SiteTrace')
    for step, fail in failed.get(0, []):
        key, what = violation_key(t, fail)
        print('  %s: %s' % (key, what))
    rmworkdir('c16-replay')
    print('VIOLATION reproduced' if failed else 'no violation on replay')
    return 1 if failed else 0
