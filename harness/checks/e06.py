"""E06 (extension) - trace.py run control.

Specification: spec/trace/TraceRun.tla - the documented behaviour of `trace.py` (commands.rst "trace.py", man/trace.py.rst) as a
state machine on top of Z80!Step / Z80!IntAccepts / Z80!Interrupt: the start state from the input (snapshot, raw memory with --org,
'48' / '128' / '+2') and --reg / --state / --poke / --rom / --start (JobOf), the run loop (StepAction ; AcceptInterrupt | NoInterrupt ;
StopByOperations > StopByTstates > StopByAddress | Continue ; Finish), the 128K paging latch / AY / ULA ports, the report lines,
--stats, --map, the -v / -vv lines (address, instruction text via Z80Asm!TextF with TraceOperand formats, registers, {t}, {m[a]}) and
the snapshot written after execution.

  (A) TraceRunMC (+ _mc / _live / _neg cfgs) and TraceRunPair (_ops / _tstates): the machine model-checked on small jobs - exactly one
      stop reason, it holds in the final state and nothing of higher priority does; no stop condition is missed; operations counted =
      StepActions = log lines; the clock never decreases; a locked latch stays; ROM intact; termination under a limit; the PREFIX
      property by self-composition (limit N+1 extends the run with limit N); reachability tags; a negative configuration (address test
      before the limits) must be refuted.
  (B) TraceJudge: every run of the real tool (skoolkit.trace.main in-process, C and pure-Python simulators, with and without --cmio) on
      generated programs / input files / option combinations is replayed action by action by TLC; each -v line must be the line of
      the machine's StepAction, the report / --stats / --map / snapshot must be those of the machine's final state.

Verdicts only on what the documents state or what follows from the Z80 machine.  Drift (counted, never a violation): start = stop,
simulator default registers for raw memory, where a file without a clock starts in the frame, -m v. -M precedence, registers shown
before / clock shown after the instruction.  Contended runs (--cmio) take the clock from the observation (only timing differs) and
check that no instruction is faster than its uncontended duration.
"""
import collections
import json
import multiprocessing as mp
import os
import random
import re
import threading

from ..lib import cbuild, tlc
from ..lib.common import workdir, rmworkdir, seed, log, MachineryError, Timer
from ..lib.report import Report
from ..drivers import tracedrv

PID = 'E06'
# Mismatches on the unchanged tree that were triaged as genuine defects of skoolkit and reported to the lead. Until the lead records
# them in known_findings.json they print CANDIDATE-FINDING and do not fail the check (VERIF_E06_STRICT=1: they do).
CANDIDATES = {
    'rom-file:ignored-on-128k':
        "trace.py --rom FILE on a 128K / +2 machine ('128', '+2' or a 128K snapshot): 'Patch in a ROM at address 0 from this file' has no "
        "effect, the machine's own ROM stays. E.g. a 16K file starting 3E 07 00 (LD A,7 ; NOP): `trace.py --rom my.rom -s 0 -m 2 -v -n 48` "
        "lists '$0000 LD A,$07', the same with 128 lists '$0000 DI ; $0001 LD BC,$692B' (the 128K ROM).",
}
STRICT = os.environ.get('VERIF_E06_STRICT') == '1'
NCASES = {'quick': 300, 'thorough': 6000}


def candidate_of(c, clause):
    tags = c.get('tags', ())
    if 'rom-file-128k' in tags:
        return 'rom-file:ignored-on-128k'
    if 'state-7ffd-differs-from-file' in tags and (c['impl'] == 'c' or clause == 'python-and-c-differ'):
        return 'state-7ffd:c-simulator-keeps-file-paging'
    if 'fast-loops' in tags and c['impl'] == 'py' and clause == 'stats-instructions':
        return 'python:stats-instructions-fast-loops'
    return None


# ------------------------------------------------------------------------------------------------ (A) the machine itself
MC_RUNS = (('TraceRunMC', 'TraceRun_mc.cfg', 'ok'), ('TraceRunMC', 'TraceRun_live.cfg', 'ok'), ('TraceRunMC', 'TraceRun_neg.cfg', 'neg'),
           ('TraceRunPair', 'TraceRunPair_ops.cfg', 'ok'), ('TraceRunPair', 'TraceRunPair_tstates.cfg', 'ok'))
COV_TAGS = ('interrupt', 'paged-and-locked', 'locked-out-ignored', 'stop-ops', 'stop-tstates', 'stop-addr', 'ops-and-addr', 'tstates-and-addr',
            'ops-and-tstates', 'halted', 'halt-woken', 'stop-in-handler', 'start-equals-stop', 'banked-write', 'no-limit-cut')


def model_checks(box, workers):
    def one(mod, cfg, kind):
        try:
            # (-coverage makes TLC run out of memory on this specification: the reachability tags of TraceRunMC!CovSeen replace it)
            box[cfg] = tlc.model_check('trace', mod, cfg, coverage=False, workers=workers, timeout=1800)
        except BaseException as e:   # noqa: B902
            box['exc'] = e
    ths = [threading.Thread(target=one, args=r) for r in MC_RUNS]
    for t in ths:
        t.start()
    return ths


def settle_model_checks(rep, box):
    if 'exc' in box:
        raise box['exc']
    for mod, cfg, kind in MC_RUNS:
        r = box[cfg]
        name = cfg.replace('.cfg', '')
        rep.add_tlc(r, name + ('(expected failure)' if kind == 'neg' else ''))
        if kind == 'neg':
            if 'OneReason' not in r.violated:
                raise MachineryError('%s: testing the address before the limits is no longer refuted (vacuous OneReason?)\n%s' % (cfg, r.out[-1500:]))
            continue
        rep.model_violation(r, name)
        if not r.violated and r.distinct < 5000:
            raise MachineryError('%s explored only %d states' % (cfg, r.distinct))
        if cfg == 'TraceRun_mc.cfg' and not r.violated:
            seen = {rest.strip('"') for n, rest in r.notes if n == 'COV' and rest}
            missing = [t for t in COV_TAGS if t not in seen]
            if missing:
                raise MachineryError('TraceRunMC: unreachable on the small jobs: %s' % missing)


# ------------------------------------------------------------------------------------------------ (B) driving and judging
def drive(tier, sd, wd, n, first=0):
    jobs = [(sd, i, tier, wd) for i in range(first, first + n)]
    cases = []
    with mp.get_context('fork').Pool(16) as pool:
        it = pool.imap_unordered(tracedrv.run_case, jobs)
        for _ in range(len(jobs)):
            try:
                cases += it.next(timeout=600)
            except mp.TimeoutError:
                pool.terminate()
                raise MachineryError('E06: a driver worker produced nothing for 600 s')
    cases.sort(key=lambda c: (c['idx'], c['secondary']))
    return cases


_VERDICT = re.compile(r'<<\s*"VERDICT",\s*(\d+),\s*"([^"]*)"\s*>>')
_STAT = re.compile(r'<<\s*"STAT",\s*(\d+),\s*(\d+),\s*(\d+),\s*(\d+),\s*(\d+)\s*>>')


def judge(rep, cases, wd, name='TraceJudge'):
    """-> verdicts (one clause per case), stats [(ops, nint, nhalt, npage) or None]"""
    verdicts, stats = [None] * len(cases), [None] * len(cases)
    step = 1500
    for lo in range(0, len(cases), step):
        part = cases[lo:lo + step]
        path = os.path.join(wd, 'cases%d.json' % lo)
        with open(path, 'w') as f:
            json.dump([tracedrv.slim(c) for c in part], f, separators=(',', ':'))
        r = tlc.run(os.path.join(tlc.SPEC, 'trace'), 'TraceJudge', 'TraceJudge.cfg', env={'CASES': path, 'JAVA_TOOL_OPTIONS': '-Xss64m'},
                    tag=name, timeout=3000, heap='12g')
        tlc.check_machinery(r, name)
        if r.violated or not r.ok:
            raise MachineryError('%s: TLC did not complete\n%s' % (name, r.out[-3000:]))
        rep.add_tlc(r, '%s[%d:%d]' % (name, lo, lo + len(part)), traces=len(part))
        # (TLC wraps long tuples over several lines: parsed from the raw output, not from r.notes)
        for mm in _VERDICT.finditer(r.out):
            i = lo + int(mm.group(1)) - 1
            if verdicts[i] is not None:
                raise MachineryError('%s: two verdicts for case %d' % (name, i))
            verdicts[i] = mm.group(2)
        for mm in _STAT.finditer(r.out):
            q = [int(x) for x in mm.groups()]
            stats[lo + q[0] - 1] = tuple(q[1:])
        os.remove(path)
    missing = [i for i, v in enumerate(verdicts) if v is None]
    if missing:
        raise MachineryError('%s: no verdict for %d cases (first %d)' % (name, len(missing), missing[0]))
    return verdicts, stats


# hand corruptions of passing observations: the judge must name the clause (binding demonstration, run with every check)
def corruptions(cases, verdicts, rnd, strict=True):
    def pick(pred):
        idx = [i for i, c in enumerate(cases) if verdicts[i] == 'ok' and not c['soft'] and not c['op']['cmio'] and pred(c)]
        return cases[rnd.choice(idx)] if idx else None

    def clone(c):
        return json.loads(json.dumps(c))
    out = []

    def add(c, want, f):
        if c is None:
            if strict:
                raise MachineryError('E06: no passing case to corrupt for clause %s' % want)
            return      # a tree that fails everywhere in this class: the violations are the result
        d = clone(c)
        f(d)
        d['corrupt'] = want
        out.append(d)
    withlines = lambda c: c['vlevel'] > 0 and len(c['lines']) > 3
    add(pick(lambda c: withlines(c) and not c['custom'] and not c['decimal']), 'line-address',
        lambda d: d['lines'][2].update(a='$%04X' % ((int(d['lines'][2]['a'][1:], 16) + 1) % 65536)))
    add(pick(withlines), 'line-instruction', lambda d: d['lines'][1].update(i=d['lines'][1]['i'] + ' '))
    add(pick(lambda c: withlines(c) and c['lines'][0]['r']), 'line-registers', lambda d: d['lines'][3]['r'].__setitem__(0, d['lines'][3]['r'][0] ^ 1))
    add(pick(lambda c: withlines(c) and c['custom']), 'line-timestamp', lambda d: d['lines'][2].update(t=d['lines'][2]['t'] + 1))
    add(pick(withlines), 'stopped-early', lambda d: d['lines'].pop())
    add(pick(withlines), 'extra-lines', lambda d: d['lines'].append(d['lines'][-1]))
    add(pick(lambda c: c['stop']['kind'] == 'addr'), 'stop-', lambda d: d['stop'].update(kind='ops', n=d['stats']['ops'] if d['stats']['has'] else len(d['lines'])))
    add(pick(lambda c: c['stop']['kind'] == 'ops'), 'stop-operations-count', lambda d: d['stop'].update(n=d['stop']['n'] + 1))
    add(pick(lambda c: c['stop']['kind'] == 'tstates'), 'stop-tstates-count', lambda d: d['stop'].update(n=d['stop']['n'] - 1))
    add(pick(lambda c: c['stats']['has']), 'stats-instructions', lambda d: d['stats'].update(ops=d['stats']['ops'] + 1))
    add(pick(lambda c: c['stats']['has']), 'stats-tstates', lambda d: d['stats'].update(t=d['stats']['t'] + 4))
    add(pick(lambda c: c['snap'].get('has')), 'snap-pc', lambda d: d['snap']['r'].__setitem__(24, (d['snap']['r'][24] + 1) % 65536))
    add(pick(lambda c: c['snap'].get('has') and c['snap']['t'] >= 0), 'snap-tstates', lambda d: d['snap'].update(t=(d['snap']['t'] + 1) % 69888))
    add(pick(lambda c: c['snap'].get('has')), 'snap-border', lambda d: d['snap'].update(border=(d['snap']['border'] + 1) % 8))
    add(pick(lambda c: c['snap'].get('has') and c['snap']['diff']), 'snap-memory', lambda d: d['snap']['diff'].pop())
    add(pick(lambda c: c['snap'].get('has') and c['snap']['is128']), 'snap-7ffd', lambda d: d['snap'].update(p7=d['snap']['p7'] ^ 1))
    add(pick(lambda c: c['map']['has']), 'map', lambda d: d['map']['a'].pop())
    add(pick(lambda c: c['op']['maxops'] > 1 and c['stop']['kind'] == 'ops'), '*', lambda d: d['op'].update(maxops=d['op']['maxops'] - 1))
    shadow = lambda c: [o for o in c['op']['regs'] if o['n'] in ('^bc', '^de', '^hl')]
    add(pick(lambda c: shadow(c) and c['vlevel'] == 2 and not c['custom'] and 'exch' not in c['features'] and c['in']['kind'] != 'sna'), 'line-registers',
        lambda d: shadow(d)[0].update(v=shadow(d)[0]['v'] ^ 1))
    return out


def small(c, limit=1500):
    d = {k: v for k, v in c.items() if k not in ('in', 'lines', 'snap', 'op', 'map') and len(str(v)) < limit}
    d['cmd'] = ' '.join(c.get('cmd', ()))[:1200]
    d['lines_head'] = c['lines'][:4]
    d['n_lines'] = len(c['lines'])
    d['op'] = {k: v for k, v in c['op'].items() if k not in ('tafter',)}
    d['snap'] = {k: (v if k != 'diff' else v[:12]) for k, v in c['snap'].items() if k != 'r'}
    return d


def run(tier):
    rep = Report(PID, tier)
    timer = Timer()
    wd = workdir('e06/run')
    sd = seed()
    cbuild.build()
    box = {}
    ths = model_checks(box, 2 if tier == 'quick' else 4)
    cases = drive(tier, sd, wd, NCASES[tier])
    log('E06: %d cases driven in %.1fs' % (len(cases), timer.s()))
    verdicts, stats = judge(rep, cases, wd)
    log('E06: judged at %.1fs' % timer.s())

    # ---- verdicts
    by_idx = collections.defaultdict(dict)
    for c, v in zip(cases, verdicts):
        by_idx[c['idx']][c['secondary']] = (c, v)
    drift, undefined = collections.Counter(), collections.Counter()
    cand, cand_ex = collections.Counter(), {}
    for c, v in zip(cases, verdicts):
        if v == 'ok':
            continue
        if v.startswith('harness:'):
            raise MachineryError('E06: generator and specification disagree: %s %s' % (v, small(c)))
        if v.startswith('drift:'):
            # a soft case that fails for a reason already known as a candidate defect is that candidate, not drift
            base = v.split(':', 2)[2] if v.count(':') >= 2 and v.split(':')[1] == c['soft'] else None
            ck = candidate_of(c, base) if base else None
            if base == 'python-and-c-differ' and ck is None and 1 in by_idx[c['idx']]:
                c2, v2 = by_idx[c['idx']][1]
                ck = candidate_of(c2, v2.split(':', 2)[2] if v2.startswith('drift:') and v2.count(':') >= 2 else v2) if v2 != 'ok' else None
            if ck and ck not in rep.known and not STRICT:
                cand[ck] += 1
                cand_ex.setdefault(ck, '%s: %s' % (v, ' '.join(c['cmd'])[:700]))
                continue
            drift[v[6:]] += 1
            if not STRICT:
                continue
        if v.startswith('undefined:'):
            undefined[v] += 1
            continue
        key = '%s:%s:%s' % (c['key'], c['impl'], v)
        ck = candidate_of(c, v)
        if v == 'python-and-c-differ' and ck is None and 1 in by_idx[c['idx']]:
            # the partner is judged on its own: when it fails for a known candidate, the difference is that candidate's
            c2, v2 = by_idx[c['idx']][1]
            ck = candidate_of(c2, v2) if v2 != 'ok' else None
        if ck and not STRICT and ck not in rep.known:
            cand[ck] += 1
            cand_ex.setdefault(ck, '%s: %s' % (v, ' '.join(c['cmd'])[:700]))
            continue
        if ck:
            key = ck
        rep.violation(key, 'trace.py %s [%s simulator]: %s' % (' '.join(c['cmd'])[:900], c['impl'], v),
                      {'gen': {'seed': sd, 'idx': c['idx'], 'tier': tier, 'secondary': c['secondary']}, 'clause': v, 'case': small(c)})

    # ---- binding demonstration: corrupted copies of passing observations must fail with the clause that names the corruption
    bad = corruptions(cases, verdicts, random.Random(sd * 31 + 7), strict=not rep.violations)
    bv, _ = judge(rep, bad, wd, 'TraceJudge-corrupted')
    for d, v in zip(bad, bv):
        want = d['corrupt']
        if v == 'ok' or v.startswith('drift:') or (want != '*' and not (v.endswith(want) or want.endswith('-') and want in v)):
            raise MachineryError('E06: a hand-corrupted observation (%s) was judged %r' % (d['corrupt'], v))

    for t in ths:
        t.join()
    settle_model_checks(rep, box)

    # ---- vacuity
    st = collections.Counter()
    for c, v, s in zip(cases, verdicts, stats):
        if v != 'ok':
            st['not-ok'] += 1
            continue
        st['ok'] += 1
        st['kind:' + c['kind']] += 1
        st['machine:' + ('128' if c['in']['is128'] else '48') + ('+2' if c['in']['plus2'] else '')] += 1
        st['stop:' + c['stop']['kind']] += 1
        st['mode:' + c['mode']] += 1
        st['impl:' + c['impl']] += 1
        st['vlevel:%d' % c['vlevel']] += 1
        st['cmio'] += c['op']['cmio']
        st['decimal'] += c['decimal']
        st['custom-line'] += c['custom']
        st['stats'] += c['stats']['has']
        st['map'] += c['map']['has']
        st['rom-file'] += 1 - c['in']['realrom']
        st['start-option'] += int(c['op']['start'] >= 0)
        st['pokes'] += int(bool(c['op']['pokes']))
        st['poke-xor'] += int(any(o['op'] == 1 for o in c['op']['pokes']))
        st['poke-add'] += int(any(o['op'] == 2 for o in c['op']['pokes']))
        st['poke-bank'] += int(any(o['bank'] >= 0 for o in c['op']['pokes']))
        st['poke-range'] += int(any(o['b'] > o['a'] for o in c['op']['pokes']))
        st['sna-stack-pc'] += c['in']['stackpc']
        st['int-window-edge'] += int('int-edge' in c['features'])
        if c['snap'].get('has'):
            st['dump:' + ('szx' if c['snap']['szx'] else 'z80')] += 1
            st['dump-memory-diff'] += int(bool(c['snap']['diff']))
        if s:
            st['instructions'] += s[0]
            st['interrupt-accepted'] += int(s[1] > 0)
            st['halt'] += int(s[2] > 0)
            st['halt-never-ends'] += int(s[2] > 3 and not c['op']['ints'])
            st['paging'] += int(s[3] > 0)
            st['stopped-in-handler'] += int(s[1] > 0 and c['stop']['kind'] == 'addr')
        if c['soft']:
            st['soft:' + c['soft']] += 1
    need = ['kind:z80', 'kind:szx', 'kind:sna', 'kind:bin', 'kind:blank', 'machine:48', 'machine:128', 'machine:128+2', 'stop:addr', 'stop:ops',
            'stop:tstates', 'mode:same', 'mode:same-ops-t', 'mode:start=stop', 'impl:c', 'impl:py', 'vlevel:0', 'vlevel:1', 'vlevel:2', 'cmio',
            'decimal', 'custom-line', 'stats', 'map', 'rom-file', 'start-option', 'pokes', 'poke-xor', 'poke-add', 'poke-bank', 'poke-range',
            'sna-stack-pc', 'dump:szx', 'dump:z80', 'dump-memory-diff', 'interrupt-accepted', 'int-window-edge', 'halt', 'halt-never-ends', 'paging', 'soft:start-equals-stop',
            'soft:simulator-defaults']
    empty = [k for k in need if not st[k]]
    if not rep.violations:
        if empty:
            raise MachineryError('E06: vacuous classes: %s' % empty)
        if st['ok'] + sum(drift.values()) + sum(cand.values()) < 0.9 * len(cases):
            raise MachineryError('E06: only %d of %d cases were judged ok or drift (%s %s)' % (st['ok'], len(cases), dict(drift), dict(undefined)))
        if sum(undefined.values()) > len(cases) // 50:
            raise MachineryError('E06: %d runs left the modelled domain' % sum(undefined.values()))

    for c, v in zip(cases, verdicts):
        rep.count((c['key'], c['impl'], c['mode'], c['vlevel'], tuple(c['features']), len(c['lines']), c['stop']['kind']))
    for c in cases[:3] + [c for c in cases if c['op']['cmio']][:1] + [c for c in cases if c['in']['is128']][:1]:
        rep.sample(small(c, 600))
    rep.drift = sum(drift.values())
    rep.extra.update(generated=dict(st), drift_kinds=dict(drift), undefined=dict(undefined), corrupted_observations_rejected=len(bad))
    for key, n in sorted(cand.items()):
        print('CANDIDATE-FINDING: property=%s %s (x%d): %s' % (PID, key, n, CANDIDATES[key][:400]))
    rep.extra['candidate_findings'] = {k: {'count': n, 'what': CANDIDATES[k], 'example': cand_ex[k][:900]} for k, n in cand.items()}
    rep.rule = ('programs assembled from fragments (loads, ALU, memory / indexed / stack / block operations, counted loops, calls, jumps, ULA / AY / '
                '0x7ffd port writes, EI / DI / IM 2 / HALT) at several origins; inputs .z80 v1-v3, .szx, .sna (48K with PC on the stack, 128K), raw '
                'memory (whole RAM and short files with explicit or default --org), 48 / 128 / +2 with the program poked in; start state split '
                'between the file and --reg / --state / --poke / --start / --rom; stop options chosen from a probe run so that limits and the '
                'stop address are reached, coincide or just miss each other; -v / -vv, -D, TraceLine* / TraceOperand* formats, --stats, --map, '
                'snapshot output; every run on the C and the pure-Python simulator. distinct_nontrivial = distinct (input kind, machine, '
                'simulator, stop mode, verbosity, program features, lines, stop kind)')
    rep.assumptions = [
        'the Z80 machine is Z80.tla (C05-C08); MEMPTR is not modelled and not compared',
        'programs never read or execute ROM unless a ROM file made by the harness is patched in with --rom (48K); RAM banks 2 and 5 are never '
        'paged in at 0xC000; flag-undefined instructions (SCF, CCF, BIT n,(HL)) are not generated; repeating block instructions only in runs '
        'that cannot stop or be interrupted inside them',
        'contended runs (--cmio): only timing differs - the clock after each instruction is taken from the {t} fields and must lie between the '
        'uncontended duration and 6 times it; interrupts are off in those runs',
        'start = stop, simulator defaults for raw memory, the frame position of a run started from a file without a clock, -m versus -M at the '
        'same boundary: undocumented, drift',
        'a first run of the tool (-m %d) chooses option values only' % tracedrv.PROBE,
    ]
    rmworkdir('e06/run')
    return rep.finish()


def replay(path):
    """./check E06 --replay replays/E06-n.json : generate the recorded case again (seed, index, tier), run the tool of the current tree on it and
    let TraceJudge judge the fresh observation."""
    from ..drivers import replaylib
    d, rp = replaylib.load(path, PID)
    replaylib.need(rp, path, 'gen')
    g = rp['gen']
    wd = workdir('e06/replay')
    cbuild.build()
    rep = Report(PID, 'replay')
    found = []
    try:
        with mp.get_context('fork').Pool(1) as pool:
            cases = pool.apply(tracedrv.run_case, ((g['seed'], g['idx'], g['tier'], wd),))
        verdicts, _ = judge(rep, cases, wd)
        for c, v in zip(cases, verdicts):
            print('  %s simulator: %s   (%s)' % (c['impl'], v, ' '.join(c['cmd'])[:300]))
            if v != 'ok' and not v.startswith('drift:') and not v.startswith('undefined:'):
                found.append('%s:%s:%s' % (c['key'], c['impl'], v))
    finally:
        rmworkdir('e06/replay')
    return replaylib.verdict(PID, path, found)
