"""C07 - all instruction tables agree on length, mnemonic and timing (DESIGN §4 C07)."""
import multiprocessing as mp
import os

from ..lib import cbuild, tlc
from ..lib.common import workdir, rmworkdir, seed, log, MachineryError
from ..lib.report import Report
from ..drivers import simdrv, instrdrv, replaylib
from . import c05

PID = 'C07'


def run(tier):
    rep = Report(PID, tier)
    wd = workdir('c07')
    sd = seed()
    variants = 3 if tier == 'quick' else 24
    n = len(simdrv.slots())
    chunks = [(sd * 7919 + k, list(range(k, n, 16)), variants) for k in range(16)]
    with mp.get_context('fork').Pool(16) as pool:
        parts = pool.map(instrdrv.gen_cases, chunks)
    cases = [c for p in parts for c in p]
    log('C07: %d decoder cases' % len(cases))
    for b in range(0, len(cases), 60000):
        part = cases[b:b + 60000]
        r, fails = tlc.judge('z80', 'InstrCases', 'InstrCases.cfg', part, casefile=os.path.join(wd, 'instr.json'))
        rep.add_tlc(r, 'InstrCases', traces=len(part))
        for i, clause in fails:
            c = part[i]
            comp, _, cl = clause.partition(':')
            key = 'instr:%s:%s:%s' % (c['key'], comp, cl)
            rep.violation(key, '%s at %d (opts %s): component %s clause %s; sk=%s tu=%s od=%s'
                          % (c['key'], c['pc'], ','.join(c['opts']), comp, cl, c['sk'], c['tu'], c['od']), c)
    for c in cases:
        rep.count(c['key'])
    rep.evaluations = len(cases) * 4
    rep.sample(cases[0])
    # simulators: PC and T deltas of single steps against the same specification
    steps = c05.step_cases(2 if tier == 'quick' else 12, sd + 1)
    sf = c05.judge_steps(rep, steps, wd)
    rep.evaluations += len(steps) * 4
    for i, clause in sf:
        impl, _, cl = clause.partition(':')
        if cl in ('pc', 't', 'exception'):
            c = steps[i]
            rep.violation('sim:%s:%s:%s' % (c['key'].split('/')[0], impl, cl),
                          'simulator %s step %s: clause %s' % (impl, c['key'], cl), c)
    rep.exhaustive = True
    rep.rule = ('all 1792 opcode slots x operand bytes x Opcodes option sets x addresses (incl. next to the 64K boundary); '
                'distinct_nontrivial = distinct slots; each case asks Disassembler, traceutils.disassemble, opcodes.decode, '
                'z80.get_timing and is judged against Z80Asm!Text/Length and Z80!Decode timing by TLC')
    rmworkdir('c07')
    return rep.finish()


def replay(path):
    """./check C07 --replay replays/C07-n.json : ask the decoders of the current tree about the recorded bytes again (or run the
    recorded single step on the four simulators again), judged by InstrCases / StepCases."""
    d, rp = replaylib.load(path, PID)
    wd = workdir('replay-c07')
    found = []
    if 'sk' in rp or 'opts' in rp:
        replaylib.need(rp, path, 'key', 'pc', 'ov', 'opts')
        cbuild.repo_only()
        mem = list(simdrv.BASE)
        for a, b in rp['ov']:
            mem[a] = b
        sk, tu, od = instrdrv.observe(mem, rp['pc'], rp['opts'])
        c = {'key': rp['key'], 'pc': rp['pc'], 'ov': rp['ov'], 'opts': list(rp['opts']), 'sk': sk, 'tu': tu, 'od': od}
        r, fails = tlc.judge('z80', 'InstrCases', 'InstrCases.cfg', [c], casefile=os.path.join(wd, 'instr.json'))
        for _, clause in fails:
            comp, _, cl = clause.partition(':')
            found.append('instr:%s:%s:%s: at %d (opts %s) sk=%s tu=%s od=%s' % (c['key'], comp, cl, c['pc'], ','.join(c['opts']), sk, tu, od))
    elif 'r' in rp:
        c = c05.rerun_step(rp, path)
        for _, clause in c05.judge_steps(Report(PID, 'replay'), [c], wd):
            impl, _, cl = clause.partition(':')
            if cl in ('pc', 't', 'exception'):
                found.append('sim:%s:%s:%s: simulator %s step %s' % (c['key'].split('/')[0], impl, cl, impl, c['key']))
    else:
        raise MachineryError('unusable replay file %s: neither a decoder case nor a simulator step' % path)
    rmworkdir('replay-c07')
    return replaylib.verdict(PID, path, found)
