"""E05 (extension) - simulated key presses: skoolkit/kbtracer.py as used by tap2sna.py (`-c load=...`, `--press N:KEYS`).

Specification: spec/keys/Keyboard.tla - the published keyboard matrix (8 half-rows x 5 keys behind the even ports, selected by
the zero bits of the high address byte, combined by AND, D5-D7 fixed), the keyboard legends (which keys produce which token in
K / L / E mode), the character set, SkoolKit's documented key-spec languages (`load` words, chords with '+', PC=address, the
appended ENTER; `--press` key identifiers, NONE, `*` repeat counts) and the tracer state machine (Frame, ReadPort) for both
tracers.  SkoolKit has no frame-count timing language, no Kempston tokens and no key specs in trace.py - nothing to specify there.

  (A) KeyboardMC / Keyboard_mc.cfg: the machine model-checked on small instances (invariants: fixed bits, a key outside the
      current set never reads pressed, no half-row selected = all keys up, half-rows combine by AND; action properties; under
      fair scanning the schedule is eventually used up).
  (B) KeyCases (one observation per case): schedules of the real KeyboardTracer / KeypressTracer objects for generated key
      specs, what tap2sna passes to the tracer, the line the real 48K ROM editor receives from the simulated keys (end to end),
      full keyboard scans per frame.
  (C) KeyTrace (step by step): the real tracers' run loops (Python and C, with and without contention) on real simulators
      executing generated port-reading programs, and tap2sna --press end to end on generated tapes.

Verdicts only on what the documentation / the published matrix state.  Undocumented: the number of interrupts before the first
key and between keys, how long a `load` key stays down, the arity of '+' chords, how undefined words are treated: drift (counted
in evidence).  Reads that the published matrix answers differently from SkoolKit's `load` tracer (several half-rows at once,
even ports other than 0x??FE) are counted as standing deviations (DEVIATION notes), not violations: the ROM, the only code
running while that tracer is active, reads one half-row at a time through port 0xFE.
"""
import collections
import json
import multiprocessing as mp
import os
import random
import threading

from ..lib import cbuild, tlc
from ..lib.common import workdir, rmworkdir, seed, log, MachineryError, Timer
from ..lib.report import Report
from ..drivers import keysdrv

PID = 'E05'
# Mismatches on the unchanged tree that were triaged as genuine defects of skoolkit and reported to the lead. Until the lead
# records them in known_findings.json they print CANDIDATE-FINDING and do not fail the check (VERIF_E05_STRICT=1: they do).
CANDIDATES = {
    'load:line:cmio:first-key-lost':
        "tap2sna.py -c cmio=1 -c 'load=...' (48K): the first keypress of the `load` command line is lost - KeyboardTracer shows it after 4 "
        "interrupts (3.41 frames after the start at T=5701854), but with contention the ROM reaches its editor only after 3.93 frames (3.27 "
        "without); e.g. load='PRINT 1' types only '1'. Same on CCMIOSimulator and CMIOSimulator.",
}
STRICT = os.environ.get('VERIF_E05_STRICT') == '1'      # drift counts as violation (for experiments with mutated trees)


def chunks(lst, n):
    n = max(1, n)
    k = (len(lst) + n - 1) // n if lst else 1
    return [lst[i:i + k] for i in range(0, len(lst), k)]


def plan_jobs(tier, sd, V, wd):
    rnd = random.Random(sd * 7919 + 5)
    q = tier == 'quick'
    jobs = []
    # unit traces on the two slow (Python) simulators first: they decide the wall time
    for sim, n in (('Simulator', 48 if q else 1200), ('CMIOSimulator', 24 if q else 600), ('CSimulator', 240 if q else 7500), ('CCMIOSimulator', 120 if q else 3600)):
        trs = []
        for i in range(n):
            style = ('rom', 'rand', 'rand', 'partial')[i % 4]
            trs.append(keysdrv.gen_load_trace(rnd, V, sim, style))
        for part in chunks(trs, 16 if sim.startswith('C') else 32):
            jobs.append(('load', part))
    for sim, n in (('Simulator', 80 if q else 2400), ('CMIOSimulator', 48 if q else 1200), ('CSimulator', 280 if q else 9000), ('CCMIOSimulator', 140 if q else 4500)):
        trs = [keysdrv.gen_press_trace(rnd, V, sim) for _ in range(n)]
        for part in chunks(trs, 8):
            jobs.append(('press', part))
    # end to end: typed lines
    cover = set(V['digits'] + V['letters'] + V['keyword'] + V['symchars'] + V['symwords'] + V['emode'] + ['SPACE'])
    lines = []
    for i in range(360 if q else 12000):
        cfg = {}
        if i % 13 == 0:
            cfg = {'python': 1}
        elif i % 13 == 1:
            cfg = {'cmio': 1}
        elif i % 13 == 2 and not q:
            cfg = {'cmio': 1, 'python': 1}
        if not cover:
            cover = set(V['keyword'] + V['symchars'] + V['symwords'] + V['emode'])
        lines.append((keysdrv.gen_line(rnd, V, cover), cfg))
    lines.append(('CLEAR 34999: LOAD "" CODE : RANDOMIZE USR 35000 PC=0x12B4', {}))          # the documentation's example
    lines.append(('CLEAR 34999: LOAD "" CODE : RANDOMIZE USR 35000 PC=0x12B4', {'python': 1}))
    for part in chunks(lines, 32):
        jobs.append(('line', part))
    pes = [keysdrv.gen_pe2e(rnd, V, python=(i % 8 == 0)) for i in range(96 if q else 2700)]
    for part in chunks(pes, 32):
        jobs.append(('pe2e', part))
    plans = [keysdrv.gen_plan(rnd, V) for _ in range(300 if q else 6000)] + [(None, 128), ('', 128), ('ENTER', 48), ('a  b', 48)]
    for part in chunks(plans, 8):
        jobs.append(('plan', part))
    sch = keysdrv.gen_sched_cases(rnd, V, 900 if q else 25000, 1 if q else 2)
    for part in chunks(sch, 8):
        jobs.append(('sched', part))
    pl = keysdrv.gen_plist_cases(rnd, V, 500 if q else 12000)
    for part in chunks(pl, 4):
        jobs.append(('plist', part))
    return [(k, wd, sd * 1000 + i, items) for i, (k, items) in enumerate(jobs)]


def drive(jobs):
    recs = collections.defaultdict(list)
    with mp.get_context('fork').Pool(16) as pool:
        it = pool.imap_unordered(keysdrv.worker, jobs)
        for _ in range(len(jobs)):
            try:
                kind, out = it.next(timeout=600)
            except mp.TimeoutError:
                pool.terminate()
                raise MachineryError('E05: a driver worker produced nothing for 600 s')
            recs[kind] += out
    return recs


TRACE_FIELDS = ('kind', 'words', 'delay', 'groups', 'steps', 'obs', 'ended', 'left', 'resumed')
CASE_FIELDS = {'sched': ('kind', 'words', 'delay', 'err', 'slots'), 'plist': ('kind', 'words', 'err', 'keys'),
               'plan': ('kind', 'chars', 'machine', 'err', 'words', 'stop', 'delay'), 'line': ('kind', 'chars', 'err', 'line', 'pc'),
               'scan': ('kind', 'words', 'delay', 'scans')}


def scan_case(t):
    """A rom-style load trace -> the KeyCases scan record (eight values per frame)."""
    scans, cur = [], []
    for st, v in zip(t['steps'], t['obs']):
        if st[0] == 'f':
            cur = []
        else:
            cur.append(v)
            if len(cur) == 8:
                scans.append(cur)
    return {'kind': 'scan', 'words': t['words'], 'delay': t['delay'], 'scans': scans, 'sim': t['sim'], 'raw': t['raw'], 'left': t['left'], 'gen': t['gen']}


def judge_cases(rep, cases, wd):
    fails_all, drift = [], collections.Counter()
    step = 6000
    for lo in range(0, len(cases), step):
        part = cases[lo:lo + step]
        slim = [{k: c[k] for k in CASE_FIELDS[c['kind']]} for c in part]
        r, fails = tlc.judge('keys', 'KeyCases', 'KeyCases.cfg', slim, casefile=os.path.join(wd, 'cases%d.json' % lo),
                             env={'JAVA_TOOL_OPTIONS': '-Xss32m'}, timeout=3000)
        rep.add_tlc(r, 'KeyCases[%d:%d]' % (lo, lo + len(part)), traces=len(part))
        fails_all += [(part[i], clause) for i, clause in fails]
        seen = set()
        for name, rest in r.notes:
            if name == 'DRIFT' and rest:
                tid, _, kind = rest.partition(', ')
                if (tid, kind) not in seen:
                    seen.add((tid, kind))
                    c = part[int(tid) - 1]
                    drift['%s:%s' % (c['kind'], kind.strip('"'))] += 1
                    c.setdefault('drift', []).append(kind.strip('"'))
    return fails_all, drift


def judge_traces(rep, traces, wd):
    bad, drift, dev = [], collections.Counter(), collections.Counter()
    step = 4000
    for lo in range(0, len(traces), step):
        part = traces[lo:lo + step]
        path = os.path.join(wd, 'traces%d.json' % lo)
        with open(path, 'w') as f:
            json.dump([{k: t[k] for k in TRACE_FIELDS} for t in part], f, separators=(',', ':'))
        r = tlc.run(os.path.join(tlc.SPEC, 'keys'), 'KeyTrace', 'KeyTrace.cfg', env={'CASES': path, 'JAVA_TOOL_OPTIONS': '-Xss32m'},
                    tag='KeyTrace', timeout=3000, heap='12g')
        tlc.check_machinery(r, 'KeyTrace')
        if r.violated:
            rep.model_violation(r, 'KeyTrace')
        rep.add_tlc(r, 'KeyTrace[%d:%d]' % (lo, lo + len(part)), traces=len(part))
        ended = {}
        for code, clause in r.fails:
            ended[code // 1000 - 1] = (code % 1000, clause)
        for name, rest in r.notes:
            if not rest:
                continue
            code, _, what = rest.partition(', ')
            what = what.strip('"')
            i, l = int(code) // 1000 - 1, int(code) % 1000
            if name == 'DRIFT':
                ended[i] = (l, what)
            elif name == 'DEVIATION':
                dev[what] += 1
                part[i].setdefault('deviations', []).append((l, what))
        if not r.violated:
            expect = sum((ended[i][0] if i in ended else len(t['steps'])) + 2 for i, t in enumerate(part))
            if r.distinct != expect:
                raise MachineryError('KeyTrace: expected %d states, TLC found %d\n%s' % (expect, r.distinct, r.out[-3000:]))
        for i, (l, clause) in ended.items():
            if clause.startswith('drift:'):
                drift['%s:%s' % (part[i]['kind'], clause[6:])] += 1
                part[i].setdefault('drift', []).append(clause[6:])
                if STRICT:
                    bad.append((part[i], l, clause))
            else:
                bad.append((part[i], l, clause))
    return bad, drift, dev


def small(c, limit=3000):
    return {k: v for k, v in c.items() if len(str(v)) < limit}


def replay_of(c, **more):
    """What a replay needs (the generated input) and a short view of what was observed."""
    d = {'kind': c['kind'], 'gen': c['gen']}
    for k in ('raw', 'sim', 'style', 'err', 'slots', 'keys', 'stop', 'delay', 'line', 'pc', 'left', 'ended', 'resumed', 'pressing', 'drift', 'deviations'):
        if k in c and len(str(c[k])) < 2000:
            d[k] = c[k]
    if 'obs' in c:
        d['observed_reads'] = [[s[1], v] for s, v in zip(c['steps'], c['obs']) if s[0] == 'r'][:400]
    d.update(more)
    return d


def run(tier):
    rep = Report(PID, tier)
    timer = Timer()
    wd = workdir('e05')
    sd = seed()
    cbuild.build()
    V = keysdrv.vocabulary(wd)

    # (A) the machine itself, concurrently with the driving of the real code
    box = {}

    def mc():
        try:
            box['mc'] = tlc.model_check('keys', 'KeyboardMC', 'Keyboard_mc.cfg', timeout=1800, workers=4)
            # vacuity guard: a matrix that combines half-rows by OR must be rejected (by the matrix assumption or by MCCombine)
            box['neg'] = tlc.run(os.path.join(tlc.SPEC, 'keys'), 'KeyboardMC', 'Keyboard_neg.cfg', workers=2, timeout=600, tag='KeyboardMC-neg')
        except BaseException as e:   # noqa: B902
            box['exc'] = e
    th = threading.Thread(target=mc)
    th.start()

    # (B, C) drive the real code
    jobs = plan_jobs(tier, sd, V, wd)
    recs = drive(jobs)
    log('E05: %s in %.1fs' % (', '.join('%d %s' % (len(v), k) for k, v in sorted(recs.items())), timer.s()))
    # ---- single observations
    scans = [scan_case(t) for t in recs['load'] if t['style'] == 'rom']
    cases = recs['sched'] + recs['plist'] + recs['plan'] + recs['line'] + scans
    fails, drift = judge_cases(rep, cases, wd)
    skipped = drift.pop('line:skip', 0)
    cand, cand_ex = collections.Counter(), {}
    for c, clause in fails:
        if clause.startswith('harness:'):
            raise MachineryError('E05: generator and specification disagree: %s %s' % (clause, small(c)))
        k = c['kind']
        if k == 'sched':
            key = 'load:word:%s:%s' % (c['raw'][0], clause) if len(c['raw']) == 1 else 'load:words:%s' % clause
            what = 'KeyboardTracer(words=%r, delay=%d): %s; schedule %s %s' % (c['raw'], c['delay'], clause, c['slots'][:12], c['err'])
        elif k == 'plist':
            key = 'press:key:%s:%s' % (c['raw'][0], clause) if len(c['raw']) == 1 else 'press:keys:%s' % clause
            what = 'KeypressTracer(keys=%r): %s; list %s %s' % (c['raw'], clause, c['keys'][:12], c['err'])
        elif k == 'plan':
            key = 'load:plan:%d:%s' % (c['machine'], clause)
            what = 'tap2sna -c load=%r machine=%d: %s; tracer got words=%s stop=%d delay=%d %s' % (
                c['raw'], c['machine'], clause, [''.join(w) for w in c['words']], c['stop'], c['delay'], c['err'])
        elif k == 'line':
            key = 'load:line:%s:%s' % ('cmio' if c['cfg'].get('cmio') else 'plain', clause)
            what = 'tap2sna -c load=%r %s --start 0x1B17: %s; edit line %s pc=%d %s' % (c['raw'], c['cfg'], clause, c['line'][:80], c['pc'], c['err'])
        else:
            key = 'load:scan:%s:%s' % (c['sim'], clause)
            what = 'KeyboardTracer.run(%s) words=%r delay=%d, all half-rows read after every interrupt: %s; scans %s' % (
                c['sim'], c['raw'], c['delay'], clause, c['scans'][:14])
        if key in CANDIDATES and not STRICT and key not in rep.known:
            cand[key] += 1
            cand_ex.setdefault(key, what)
            continue
        rep.violation(key, what, replay_of(c, clause=clause))
    if STRICT:
        for c in cases:
            for d in c.get('drift', []):
                if d not in ('skip', 'undefined-word-accepted', 'undefined-key-accepted', 'chord-arity', 'enter-not-last', 'bad-address-accepted'):
                    rep.violation('strict:%s:%s' % (c['kind'], d), 'drift counted as violation (VERIF_E05_STRICT): %s' % small(c), replay_of(c, clause='drift:' + d))

    # ---- traces
    pe_err = [t for t in recs['pe2e'] if t['err']]
    for t in pe_err:
        rep.violation('press:e2e:%s:tool-error' % t['sim'], 'tap2sna --press %r %s: %s' % (t['raw'], t['cfg'], t['err']), replay_of(t, clause='tool-error'))
    traces = recs['load'] + recs['press'] + [t for t in recs['pe2e'] if not t['err']]
    bad, tdrift, dev = judge_traces(rep, traces, wd)
    for t, l, clause in bad:
        if clause.startswith('harness:'):
            raise MachineryError('E05: generator and specification disagree: %s at step %d of %s' % (clause, l, small(t)))
        st = t['steps'][l - 1] if 0 < l <= len(t['steps']) else None
        if t['kind'] == 'load':
            key = 'load:trace:%s:%s:%s' % (t['sim'], t['style'], clause)
        elif t['kind'] == 'press':
            key = 'press:trace:%s:%s' % (t['sim'], clause)
        else:
            key = 'press:e2e:%s:%s' % (t['sim'], clause)
        rep.violation(key, '%s %r on %s: step %d %s (%s) read %s: %s' % (
            t['kind'], t['raw'], t['sim'], l, st, t['forms'][l - 1] if st else '', t['obs'][l - 1] if st else None, clause), replay_of(t, step=l, clause=clause))

    th.join()
    if 'exc' in box:
        raise box['exc']
    r = box['mc']
    rep.add_tlc(r, 'KeyboardMC')
    rep.model_violation(r, 'KeyboardMC')
    if not r.violated and r.distinct < 8000:
        raise MachineryError('KeyboardMC explored only %d states' % r.distinct)
    rn = box['neg']
    rep.add_tlc(rn, 'KeyboardMC-neg(expected failure)')
    if not (any('MCCombine' in v for v in rn.violated) or ('Assumption' in rn.out and 'is false' in rn.out)):
        raise MachineryError('Keyboard_neg: an OR-combining matrix is no longer rejected (vacuous CombineByAnd?)\n' + rn.out[-1500:])

    # ---- vacuity
    stats = collections.Counter()
    for c in recs['sched']:
        stats['sched:' + ('error' if c['err'] else 'ok')] += 1
    for c in recs['plist']:
        stats['plist:' + ('error' if c['err'] else 'ok')] += 1
    for c in recs['plan']:
        stats['plan:%d:%s' % (c['machine'], 'error' if c['err'] else 'ok')] += 1
    typed = set()
    for c in recs['line']:
        stats['line:' + ('error' if c['err'] else 'ok')] += 1
        typed.update(x for x in c['line'] if x >= 0)
    stats['line:skipped-by-spec'] = skipped
    stats['line:distinct-codes-typed'] = len(typed)
    for t in traces:
        stats['%s:%s' % (t['kind'], t['sim'])] += 1
        stats['%s:reads' % t['kind']] += sum(1 for s in t['steps'] if s[0] == 'r')
        stats['%s:reads-showing-keys' % t['kind']] += sum(1 for s, v in zip(t['steps'], t['obs']) if s[0] == 'r' and v & 0x1F != 0x1F)
        if t['kind'] != 'load':
            stats['%s:%s' % (t['kind'], t['ended'])] += 1
    for t in recs['pe2e']:
        stats['pe2e:groups=%d' % len(t['groups'])] += 1
    need = ['sched:ok', 'sched:error', 'plist:ok', 'plist:error', 'plan:48:ok', 'plan:128:ok', 'line:ok', 'load:reads-showing-keys', 'press:reads-showing-keys',
            'pe2e:reads-showing-keys', 'press:exhausted', 'press:stopped', 'pe2e:groups=2'] + ['load:' + s for s in keysdrv.SIMS] + ['press:' + s for s in keysdrv.SIMS]
    empty = [k for k in need if not stats[k]]
    if rep.violations:
        pass                        # what was found is reported; the vacuity guards are about runs that find nothing
    elif empty:
        raise MachineryError('E05: vacuous classes: %s' % empty)
    if rep.violations:
        pass
    elif skipped > len(recs['line']) // 3:
        raise MachineryError('E05: the specification skipped %d of %d generated command lines' % (skipped, len(recs['line'])))
    elif stats['line:distinct-codes-typed'] < (120 if tier == 'quick' else 180):
        raise MachineryError('E05: only %d distinct character codes were typed end to end' % stats['line:distinct-codes-typed'])
    elif not dev:
        raise MachineryError('E05: no read exercised the difference between the published matrix and the load tracer')

    for c in cases:
        rep.count((c['kind'], tuple(c.get('raw') or ()) if not isinstance(c.get('raw'), str) else c['raw']))
    for t in traces:
        rep.count((t['kind'], t['sim'], t.get('style'), tuple(t['raw']), len(t['steps'])))
    for c in (recs['sched'][:1] + recs['plist'][:1] + recs['plan'][:1] + recs['line'][-2:-1] + scans[:1]):
        rep.sample(small(c, 700))
    for t in (recs['load'][:1] + recs['press'][:1] + recs['pe2e'][:1]):
        rep.sample({k: (v[:24] if isinstance(v, list) else v) for k, v in t.items()})
    drift.update(tdrift)
    rep.drift = sum(drift.values())
    rep.extra.update(generated=dict(stats), drift_kinds=dict(drift),
                     standing_deviations={'load-tracer-vs-published-matrix': dict(dev),
                                          'what': 'reads whose value the published matrix defines differently from KeyboardTracer.read_port: '
                                                  'multi-row = port 0x??FE selecting several half-rows (a held key is not shown), port-alias = an even '
                                                  'port other than 0x??FE (not answered)'})
    for key, n in sorted(cand.items()):
        print('CANDIDATE-FINDING: property=%s %s (x%d): %s' % (PID, key, n, CANDIDATES[key][:300]))
    rep.extra['candidate_findings'] = {k: {'count': n, 'what': CANDIDATES[k], 'example': cand_ex[k][:600]} for k, n in cand.items()}
    for k, n in sorted(dev.items()):
        print('STANDING-DEVIATION: property=%s load-tracer:%s (x%d reads)' % (PID, k, n))
    rep.rule = ('key specs generated from the vocabulary exported by the specification: every token and (thorough: every) two-key chord as a single '
                'word, random word lists incl. undefined words; `--press` lists with repeat counts, NONE and undefined identifiers; programs of '
                'EI+HALT and IN A,(n) / IN r,(C) / INI reads (half-row ports, several/all/no half-rows, even non-FE and odd ports) run by the real '
                'tracers on all four simulators; command lines typed into the real 48K ROM editor; --press on generated tapes. '
                'distinct_nontrivial = distinct (kind, simulator, key spec, program length)')
    rep.assumptions = [
        'keyboard matrix, legends and character set transcribed from the ZX Spectrum manual (ch. 23, ch. 1/2, appendix A); the legends are '
        'cross-checked end to end by the 48K ROM decoding the simulated keys',
        'K/L mode rule used by Typed: K at the start of a line, after THEN and after ":" outside a string; digits and spaces keep the mode',
        'SkoolKit has no timing language for key specs, no Kempston tokens, no key specs in trace.py: not specified',
        'undocumented timing (4 interrupts before the first key, 4/13 between keys, a load key held until its half-rows are read) is drift',
        'the load tracer not answering multi-half-row / non-0xFE even ports is a standing deviation from the published matrix, not a verdict',
        'bit 6 (EAR) is not judged',
    ]
    rmworkdir('e05')
    return rep.finish()


def replay(path):
    """./check E05 --replay replays/E05-n.json : drive the recorded key spec / program / tape through the code of the current tree
    again and let KeyCases / KeyTrace judge the fresh observation."""
    from ..drivers import replaylib
    d, rp = replaylib.load(path, PID)
    replaylib.need(rp, path, 'kind', 'gen')
    wd = workdir('replay-e05')
    cbuild.build()
    rep = Report(PID, 'replay')          # collects what the judges say; never finished (no evidence written)
    g = rp['gen']
    kind = rp['kind']
    found = []
    try:
        if kind in ('sched', 'plist', 'plan', 'line', 'scan'):
            if kind == 'sched':
                c = keysdrv.observe_sched(g['words'], g['delay'])
            elif kind == 'plist':
                c = keysdrv.observe_plist(g['words'])
            elif kind == 'plan':
                c = keysdrv.observe_plan(wd, g['load'], g['machine'], keysdrv.tiny_tape(os.path.join(wd, 'tiny.tap')))
            elif kind == 'line':
                c = keysdrv.observe_line(wd, g['load'], g['cfg'], keysdrv.tiny_tape(os.path.join(wd, 'tiny.tap')), 'replay')
            else:
                c = scan_case(keysdrv.run_load_trace(g))
            fails, drift = judge_cases(rep, [c], wd)
            print('  observed: %s' % small({k: v for k, v in c.items() if k not in ('words', 'chars', 'gen')}, 1500))
            found = ['%s: %s' % (kind, clause) for _, clause in fails]
            if drift:
                print('  drift: %s' % dict(drift))
        elif kind in ('load', 'press', 'pe2e'):
            if kind == 'load':
                t = keysdrv.run_load_trace(g)
            elif kind == 'press':
                t = keysdrv.run_press_trace(g)
            else:
                t = keysdrv.observe_pe2e(wd, g, 'replay')
            if t.get('err'):
                found = ['pe2e: tool-error: %s' % t['err']]
            else:
                bad, tdrift, dev = judge_traces(rep, [t], wd)
                found = ['%s: step %d %s read %s: %s' % (kind, l, t['steps'][l - 1] if l else None, t['obs'][l - 1] if l else None, clause)
                         for _, l, clause in bad]
                if tdrift or dev:
                    print('  drift: %s deviations: %s' % (dict(tdrift), dict(dev)))
        else:
            raise MachineryError('unusable replay file %s: unknown kind %r' % (path, kind))
        found += ['model: %s' % k for k, _, _ in rep.violations if k.startswith('model:')]
    finally:
        rmworkdir('replay-e05')
    return replaylib.verdict(PID, path, found)
