"""E02 (extension) - snapinfo.py --basic / --variables / --peek / --word / --find / --find-text / --find-tile.

TLC runs (all in spec/basic):
  BasicMC / Basic_mc.cfg    pattern A/D: the specification's own encoders/decoders round-trip (every item sequence up to
                            length 4 (5 thorough) over an alphabet with one item of every shape, every small integer, a grid
                            of floating point forms, pairs of variables of every kind), the renderer and the matcher agree
                            under every spacing rule, the two definitions of a search result agree on a small memory
  BasicCases                pattern B: TLC decodes the RAM image of every generated snapshot itself (Basic!ProgLines,
                            Basic!Variables, Basic!Peek, Basic!FindFast ...) and compares with what the real
                            skoolkit.snapinfo.main printed for it

Verdicts are about the published memory format and skoolkit's documentation only.  Spacing around keywords, the {0x..}
notation, the layout of --variables / --find result lines are `drift`: counted in evidence, never a violation.
"""
import collections
import multiprocessing as mp
import os
import threading

from ..lib import cbuild, tlc
from ..lib.common import workdir, rmworkdir, seed, log, MachineryError, Timer
from ..lib.report import Report
from ..drivers import basicdrv

PID = 'E02'

# Defect candidates reported to the lead and not (yet) listed in known_findings.json.  They are printed as
# CANDIDATE-FINDING lines and recorded in evidence; they do not fail the check unless VERIF_E02_STRICT=1, so that the
# unchanged tree exits 0 until the lead has decided.  Once a key is in known_findings.json (or fixed) remove it here.
CANDIDATES = {}      # (find:missed-at-end-of-memory was fixed in /repo 33fa0bb: a violation again if it returns)


def _mc(parts, cfg):
    parts['mc'] = tlc.model_check('basic', 'BasicMC', cfg, timeout=3000, coverage=False)


def _threaded(fn, *args):
    box = {}

    def go():
        try:
            fn(*args)
        except BaseException as e:
            box['exc'] = e
    t = threading.Thread(target=go)
    t.start()
    return t, box


FLAVOURS = ('wf',) * 12 + ('empty', 'cr', 'cut', 'len', 'truncated', 'truncated', 'prog65535')


def jobs_for(tier, wd, sd):
    quick = tier == 'quick'
    nprog, nmem, nchars = (900, 330, 32) if quick else (9000, 3300, 160)
    jobs = []
    for n in range(nprog):
        jobs.append(('program', wd, n, sd, FLAVOURS[n % len(FLAVOURS)]))
    for n in range(nmem):
        jobs.append(('memory', wd, n, sd, ('any', 'any', 'end')[n % 3]))
    for n in range(nchars):
        jobs.append(('chars', wd, n, sd, 'table'))
    return jobs


def slim(c):
    return {k: v for k, v in c.items() if k not in ('info', 'key')}


def vacuity(cases):
    """Every class the statement of E02 names must have been generated (and reached snapinfo)."""
    toks_line, toks_var, toks_peek = set(), set(), set()
    numkinds = collections.Counter()
    varkinds = collections.Counter()
    kinds = collections.Counter()
    fmts = collections.Counter()
    shown = hidden = big = trunc = allbanks = tail = 0
    for c in cases:
        kinds[c['kind']] += 1
        fmts[c['key'].split(':')[-2 if c['kind'] in ('basic', 'vars') else -1]] += 1
        inf = c['info']
        if c['kind'] == 'basic':
            toks_line.update(inf['tokens'])
            numkinds.update(inf['numkinds'])
            shown += sum(len(x) for x in c['nums'])
            big += inf['lineno_big']
            trunc += c['key'].startswith('basic:truncated')
        elif c['kind'] == 'vars':
            toks_var.update(inf['tokens'])
            varkinds.update(inf['kinds'])
        elif c['kind'] == 'peek' and ':table:' in c['key']:
            if inf['step'] == 1:
                toks_peek.update(range(165, 256))
        elif c['kind'] in ('find', 'text', 'tile'):
            allbanks += c['allbanks']
    need = {'basic': 50, 'vars': 50, 'peek': 20, 'word': 20, 'find': 50, 'text': 10, 'tile': 20}
    for k, n in need.items():
        if kinds[k] < n:
            raise MachineryError('E02: only %d cases of kind %s' % (kinds[k], k))
    if len(toks_line) != 91:
        raise MachineryError('E02: tokens never generated in a line: %s' % sorted(set(range(165, 256)) - toks_line))
    if len(toks_peek) != 91:
        raise MachineryError('E02: --peek never walked the whole character table with step 1')
    for k in ('int', 'intf', 'dec', 'gross', 'near', 'far', 'bin', 'bingross', 'junk'):
        if not numkinds[k]:
            raise MachineryError('E02: numeral kind %s never generated' % k)
    for k in ('num', 'long', 'str', 'for', 'numarr', 'chrarr'):
        if not varkinds[k]:
            raise MachineryError('E02: variable kind %s never generated' % k)
    if not shown or not big or not trunc or not allbanks:
        raise MachineryError('E02: empty class (shown numbers %d, line numbers > 9999 %d, truncated %d, all-banks searches %d)'
                             % (shown, big, trunc, allbanks))
    return dict(kinds=dict(kinds), formats=dict(fmts), numeral_kinds=dict(numkinds), variable_kinds=dict(varkinds),
                tokens_in_lines=len(toks_line), tokens_in_strings=len(toks_var), numbers_shown=shown, all_banks_searches=allbanks)


def describe(c, clause):
    inf = c['info']
    if c['kind'] in ('basic', 'vars'):
        return ('%s of %s (PROG=%d VARS=%d, job %d seed %d): clause %s; snapinfo printed %r; error %r'
                % ('--basic' if c['kind'] == 'basic' else '--variables', c['key'], inf['prog'], inf['vars'], inf['n'], inf['seed'], clause,
                   inf['text'][:300], c['err']))
    return ('snapinfo %s on %s (job %d seed %d): clause %s; printed %r; error %r'
            % (' '.join(inf['args']), c['key'], inf['n'], inf['seed'], clause, inf['text'][:300], c['err']))


def vkey(c, clause):
    """Violation keys name the option and the clause (and the variable kind / item kind where there is one)."""
    if clause.startswith('harness:'):
        return 'machinery:%s:%s' % (c['kind'], clause)
    if c['kind'] in ('find', 'tile') and clause == 'missed-at-end-of-memory':
        return 'find:missed-at-end-of-memory'
    return '%s:%s' % (c['kind'], clause)


def run(tier):
    rep = Report(PID, tier)
    wd = workdir('e02')
    sd = seed()
    cbuild.repo_only()
    basicdrv._sk()
    timer = Timer()
    parts = {}
    pool = mp.get_context('fork').Pool(16)
    try:
        th, box = _threaded(_mc, parts, 'Basic_mc.cfg' if tier == 'quick' else 'Basic_mc5.cfg')
        jobs = jobs_for(tier, wd, sd)
        cases = [c for lst in pool.imap(basicdrv.worker, jobs, chunksize=8) for c in lst]
    finally:
        pool.terminate()
        pool.join()
    log('E02: %d invocations of snapinfo on %d snapshot files in %.1fs' % (len(cases), len(jobs), timer.s()))
    stats = vacuity(cases)

    # ---- TLC judges (in slices: a case file stays well below 40 MB) ----------------------------------------------------
    drift = collections.Counter()
    nfail = 0
    step = 3000
    for lo in range(0, len(cases), step):
        part = cases[lo:lo + step]
        r, fails = tlc.judge('basic', 'BasicCases', 'BasicCases.cfg', [slim(c) for c in part], casefile=os.path.join(wd, 'cases%d.json' % lo),
                             env={'JAVA_TOOL_OPTIONS': '-Xss64m'}, timeout=3000)
        rep.add_tlc(r, 'BasicCases[%d:%d]' % (lo, lo + len(part)), traces=len(part))
        for i, clause in fails:
            c = part[i]
            key = vkey(c, clause)
            what = describe(c, clause)
            nfail += 1
            if clause.startswith('harness:'):
                raise MachineryError('E02: generator and specification disagree about a generated image: ' + what)
            if key in CANDIDATES and os.environ.get('VERIF_E02_STRICT') != '1' and key not in rep.known:
                parts.setdefault('cand', collections.Counter())[key] += 1
                parts.setdefault('cand_ex', {}).setdefault(key, what)
                continue
            rep.violation(key, what, {k: v for k, v in c.items() if k != 'out' or len(str(v)) < 4000} | {'clause': clause})
        seen = set()
        for name, rest in r.notes:
            if name == 'DRIFT' and rest:
                tid, _, kind = rest.partition(', ')
                if (tid, kind) not in seen:
                    seen.add((tid, kind))
                    drift['%s:%s' % (part[int(tid) - 1]['kind'], kind.strip('"'))] += 1
    for c in cases:
        rep.count((c['kind'], c['key'], c['wf']))
    for c in cases[:3] + [c for c in cases if c['kind'] == 'find'][:1] + [c for c in cases if c['kind'] == 'vars' and c['out']][:1]:
        rep.sample({'key': c['key'], 'args_or_file': c['info'].get('args', c['info'].get('file')), 'printed': c['info']['text'][:200]})

    th.join()
    if 'exc' in box:
        raise box['exc']
    r = parts['mc']
    rep.add_tlc(r, 'BasicMC')
    rep.model_violation(r, 'BasicMC')
    if not r.violated and r.distinct < 60000:
        raise MachineryError('BasicMC explored only %d states' % r.distinct)

    rep.drift = sum(drift.values())
    for key, cnt in sorted(parts.get('cand', {}).items()):
        print('CANDIDATE-FINDING: property=%s %s (x%d): %s' % (PID, key, cnt, CANDIDATES[key][:200]))
    rep.extra.update(generated=stats, drift_kinds=dict(drift),
                     candidate_findings={k: {'count': n, 'what': CANDIDATES[k], 'example': parts['cand_ex'][k][:600]}
                                         for k, n in parts.get('cand', {}).items()})
    rep.rule = ('one evaluation = one invocation of skoolkit.snapinfo.main on a generated snapshot file; distinct = (option, program '
                'flavour, machine, file format, placement, well-formedness); programs hold every token 0xA5-0xFF, numerals of nine kinds '
                '(exact / float form / decimal+exponent / one unit off / far off / grossly different / BIN / junk bytes), strings and REMs '
                'with control codes, UDGs, block graphics; variables of all six kinds; sparse RAM images with recurring sequences at the '
                'start of RAM, across 16K boundaries and up to the last byte')
    rep.assumptions = [
        'decimal numerals printed by snapinfo are converted to exact values by Python float()/int() and fractions.Fraction (trusted); '
        'TLC compares sign, 32-bit mantissa and binary exponent with its own decoding of the five bytes',
        'what a numeral in a program line denotes is computed by the harness with exact rationals for decimal/exponent forms (trusted); '
        'for runs of decimal digits and BIN digits TLC computes it itself',
        'ast.literal_eval reads the Python list/str notation of array variables (trusted)',
        'snapshot files are written by harness/drivers/snapfile.py (validated by C09)',
        'spacing around keywords, the {0x..} notation and result-line layouts are not documented: drift, not verdicts',
        'ill-formed program areas (ENTER inside a line, wrong length field, area cut by the end of memory) are judged up to the '
        'first ill-formed line and for not crashing only',
    ]
    rmworkdir('e02')
    return rep.finish()
