"""C08 - ROM, register ranges, T monotone, 128K paging (DESIGN §4 C08)."""
import multiprocessing as mp
import os

from ..lib import cbuild, tlc
from ..lib.common import workdir, rmworkdir, seed, log, MachineryError
from ..lib.report import Report
from ..drivers import pagedrv, replaylib
from . import c05

PID = 'C08'


def judge_traces(rep, traces, wd, name):
    bad = []
    for b in range(0, len(traces), 60000):
        part = traces[b:b + 60000]
        slim = [{k: t[k] for k in ('impl', 'pre', 'acts', 'obs')} for t in part]
        import json
        path = os.path.join(wd, 'ptraces.json')
        with open(path, 'w') as f:
            json.dump(slim, f, separators=(',', ':'))
        r = tlc.run(os.path.join(tlc.SPEC, 'paging'), 'PagingTrace', 'PagingTrace.cfg', env={'CASES': path},
                    tag='PagingTrace', timeout=3000, heap='16g')
        tlc.check_machinery(r, 'PagingTrace')
        if r.violated:
            rep.model_violation(r, 'PagingTrace')
        rep.add_tlc(r, name, traces=len(part))
        failed = {}
        for code, clause in r.fails:
            failed[code // 1000 - 1] = (code % 1000, clause)
        expect = sum((failed[i][0] if i in failed else len(t['acts'])) + 1 for i, t in enumerate(part))
        if r.distinct != expect:
            raise MachineryError('PagingTrace: expected %d states, TLC found %d\n%s' % (expect, r.distinct, r.out[-3000:]))
        for i, (l, clause) in failed.items():
            bad.append((part[i], l, clause))
    return bad


def run(tier):
    rep = Report(PID, tier)
    wd = workdir('c08')
    sd = seed()
    # (A) the paging design itself
    r = tlc.model_check('paging', 'Paging128', 'Paging128_mc.cfg', timeout=1800)
    rep.add_tlc(r, 'Paging128_mc')
    rep.model_violation(r, 'Paging128_mc')
    # vacuity guard: the same model with the lock test on bit 4 must violate LockStable
    rn = tlc.model_check('paging', 'Paging128', 'Paging128_neg.cfg', timeout=600, coverage=False)
    rep.add_tlc(rn, 'Paging128_neg(expected violation)')
    if not any('LockStable' in v for v in rn.violated) and 'LockStable' not in rn.out:
        raise MachineryError('Paging128_neg: a lock test on the wrong bit no longer violates LockStable (vacuous property?)')
    never = [a for a, (d, t) in r.coverage.items() if t == 0]
    rep.extra['mc_actions_never_taken'] = never
    # (B) recorded traces of the real implementations
    cbuild.build()
    nvals = 6 if tier == 'quick' else 0
    nhist = 60 if tier == 'quick' else 1500
    args = [(sd * 131 + k, list(range(k, 256, 16)), nvals, nhist, 14) for k in range(16)]
    with mp.get_context('fork').Pool(16) as pool:
        parts = pool.map(pagedrv.worker, args)
    traces = [t for p in parts for t in p]
    log('C08: %d recorded paging traces' % len(traces))
    bad = judge_traces(rep, traces, wd, 'PagingTrace')
    for t in traces:
        for a, v in zip(t['acts'], t['variants']):
            rep.nontrivial.add((t['impl'], a[0], a[1] if a[0] == 'out' else a[1], v))
    rep.evaluations += sum(len(t['acts']) for t in traces)
    rep.sample({k: traces[0][k] for k in ('impl', 'pre', 'acts', 'variants')})
    rep.sample({'obs_after_first_action': traces[0]['obs'][0]})
    for t, l, clause in bad:
        a = t['acts'][l - 1]
        rep.violation('paging:%s:%s:%s:%s' % (t['impl'], a[0], t['variants'][l - 1], clause),
                      'impl %s, pre o7ffd=%d, action %d %s (%s): %s; observed %s'
                      % (t['impl'], t['pre'], l, a, t['variants'][l - 1], clause, t['obs'][l - 1]), t)
    # millions of traces in the thorough tier: free them before the next pools fork (copy-on-write of a 10 GB parent
    # got workers OOM-killed, which makes Pool.map wait for ever)
    del parts, traces, bad
    import gc
    gc.collect()
    # (C) state invariants on single steps of every opcode slot: ranges, ROM immutable, T monotone
    steps = c05.step_cases(4 if tier == 'quick' else 40, sd + 17)
    fails = c05.judge_steps(rep, steps, wd, mode='c08')
    rep.evaluations += len(steps) * 4
    for i, clause in fails:
        c = steps[i]
        impl, _, cl = clause.partition(':')
        rep.violation('step:%s:%s:%s' % (c['key'].split('/')[0], impl, cl),
                      'single step %s on %s violates %s' % (c['key'], impl, cl), c)
    # (D) the frame interrupt's push: one instruction + accepted interrupt with SP at every ROM/RAM/64K edge, through the
    #     real trace loops of all four simulators; state invariants judged by MachineTrace (c08 mode)
    from ..drivers import progdrv
    from . import c06
    nslots = 1792
    reps = 1 if tier == 'quick' else 6
    with mp.get_context('fork').Pool(16) as pool:
        parts = pool.map(progdrv.int_cases, [(sd * 31 + 7 + 100 * r + k, list(range(k, nslots, 16))) for r in range(reps) for k in range(16)])
    itr = [t for p in parts for t in p]
    accepted = sum(t['accepted'] for t in itr)
    rep.extra['interrupt_push_cases'] = len(itr)
    rep.extra['interrupt_push_cases_accepted'] = accepted
    if accepted < len(itr) // 2:
        raise tlc.MachineryError('vacuous C08 interrupt cases: %d of %d accepted' % (accepted, len(itr)))
    for t, l, clause in c06.judge_runs(rep, itr, wd, 'MachineTrace[int-push]'):
        rep.violation('int-push:%s:sp=%d:%s' % (t['pair'], t['sp'], clause),
                      '%s: %s at PC=%d SP=%d IM=%d T=%d + frame interrupt: %s; observed %s'
                      % (t['pair'], t['slot'], t['r0'][24], t['sp'], t['r0'][27], t['r0'][25], clause, t['obs'][0]), t)
    rep.evaluations += len(itr) * 2
    # (E) whole loops executed by ONE run(start, stop) call, with the closed forms of the pure-Python simulator switched on
    #     (fast_ldir / fast_djnz: what trace.py and #SIM use when nothing is printed per instruction): block copies that
    #     cross 0xFFFF -> 0x0000 or descend into the ROM; judged by FastRun's rom-write / range clauses (the rest is C06's)
    with mp.get_context('fork').Pool(16) as pool:
        parts = pool.map(progdrv.fast_cases, [(sd * 389 + 3 + k, 14 if tier == 'quick' else 200, None) for k in range(16)])
    fcases = [c for p in parts for c in p]
    crossing = sum(1 for c in fcases if c['kind'] != 'djnz' and any(a < 0x4000 for a in c.get('dest', [])))
    rep.extra['fast_run_cases'] = len(fcases)
    rep.extra['fast_run_copies_reaching_rom_addresses'] = crossing
    if crossing < 10:
        raise MachineryError('vacuous C08 fast-run section: %d copies reach ROM addresses' % crossing)
    for c, clause in c06.judge_fast(rep, fcases, wd):
        if clause.split(':')[-1] in ('rom-write', 'range', 'exception'):
            rep.violation('fast:%s:%s' % (c['kind'], clause),
                          'run(%d, %d, interrupts=%d) of a %s program (loop instruction at %d, IFF=%d): %s; writes %s'
                          % (c['r0'][24], c['stop'], c['ints'], c['kind'], c['at'], c['r0'][26], clause,
                             {o['impl']: o['wr'][:6] for o in c['obs']}), dict(c, kind='fast-' + c['kind']))
    rep.evaluations += len(fcases) * 3
    rep.rule = ('paging: every (o7ffd state x port class x value) edge + random histories replayed through real OUT/OUTI/OTIR/'
                'LD (nn),A instructions on 4 simulators and skoolutils.Memory, each step validated as a Paging128 action; '
                'steps: every opcode slot from boundary states judged for ranges/ROM/T (48K and locked 128K memory); every slot followed by '
                'an accepted frame interrupt with SP at the ROM/RAM/64K edges; LDIR/LDDR/DJNZ loops as one run(start, stop) call with fast_ldir/fast_djnz (copies crossing 0xFFFF/0x4000) judged for rom-write/range by FastRun; distinct_nontrivial = distinct '
                '(impl, action kind, port/region, instruction variant)')
    rmworkdir('c08')
    return rep.finish()


def replay(path):
    """./check C08 --replay replays/C08-n.json : drive the recorded action sequence / single step / instruction + interrupt through
    the implementations of the current tree again, judged by PagingTrace / StepCases (c08 mode) / MachineTrace (c08 mode)."""
    d, rp = replaylib.load(path, PID)
    wd = workdir('replay-c08')
    rep = Report(PID, 'replay')          # only collects what the judges say; never finished (no evidence written)
    found = []
    if 'acts' in rp:
        replaylib.need(rp, path, 'impl', 'pre', 'acts', 'variants')
        cbuild.preload()
        if rp['impl'] == 'skmem':
            t = pagedrv.skmem_trace(rp['pre'], rp['acts'], bool(rp.get('copies')))
        elif rp['impl'] in pagedrv.IMPLS:
            t = pagedrv.run_trace(rp['impl'], rp['pre'], rp['acts'], rp['variants'])
        else:
            raise MachineryError('unusable replay file %s: unknown implementation %r' % (path, rp['impl']))
        for _, l, clause in judge_traces(rep, [t], wd, 'PagingTrace'):
            a = t['acts'][l - 1]
            found.append('paging:%s:%s:%s:%s: pre o7ffd=%d, action %d %s: observed %s' % (t['impl'], a[0], t['variants'][l - 1], clause, t['pre'], l, a,
                                                                                        t['obs'][l - 1]))
    elif str(rp.get('kind', '')).startswith('fast-'):
        from . import c06
        from ..drivers import progdrv
        replaylib.need(rp, path, 'r0', 'ov0', 'stop')
        cbuild.preload()
        c = progdrv.fast_case(rp['kind'][5:], rp['r0'], rp['ov0'], rp['stop'], rp.get('at', -1), rp.get('ints', 0))
        if c is None:
            raise MachineryError('unusable replay file %s: the program does not reach its stop address' % path)
        for c2, clause in c06.judge_fast(rep, [c], wd):
            if clause.split(':')[-1] in ('rom-write', 'range', 'exception'):
                found.append('fast:%s:%s: run(%d, %d) writes %s' % (c2['kind'], clause, c2['r0'][24], c2['stop'], {o['impl']: o['wr'][:6] for o in c2['obs']}))
    elif rp.get('kind') == 'int-push':
        from . import c06
        t, _ = c06.rerun(rp, path)
        for _, l, clause in c06.judge_runs(rep, [t], wd, 'MachineTrace[int-push]'):
            found.append('int-push:%s:sp=%d:%s: %s at PC=%d + frame interrupt: observed %s' % (t['pair'], t['sp'], clause, t['slot'], t['r0'][24], t['obs'][0]))
    elif 'r' in rp and 'ov' in rp:
        c = c05.rerun_step(rp, path)
        for _, clause in c05.judge_steps(rep, [c], wd, mode='c08'):
            impl, _, cl = clause.partition(':')
            found.append('step:%s:%s:%s: single step %s on %s' % (c['key'].split('/')[0], impl, cl, c['key'], impl))
    elif 'tlc_output_tail' in rp:
        r = tlc.model_check('paging', 'Paging128', 'Paging128_mc.cfg', timeout=1800)
        found = ['model:Paging128_mc:%s' % inv for inv in r.violated]
    else:
        raise MachineryError('unusable replay file %s: not a paging trace, single step or interrupt case' % path)
    rmworkdir('replay-c08')
    return replaylib.verdict(PID, path, found)
