"""C04 - skool2asm, skool2bin and the macro-visible snapshot agree on the assembled image (DESIGN §4 C04).

A  spec/doc/SubFix.tla (documented semantics of @*sub/@*fix directives, blocks, @org, @label, @keep, @bytes,
   @defb/@defs/@defw, @if around any of them, as a reader of abstract skool files) is model-checked on all small files
   (SubFix_mc, SubFix_mcif).
C  TLC -simulate (SubFix_sim) writes files with directives of every flag combination; subfixdrv renders them to
   skool text and runs the real skool2bin (12 modes, with and without --data), skool2asm (9 modes x option
   vectors; output assembled by the reference resolver) and skool2html (#PEEK in HTML mode).
B  spec/doc/SubFixCases.tla judges every (file, mode): assembled ASM = skool2bin image for every option vector;
   both = the model's layout and label table where the documentation is definite; #PEEK = skool2bin --data image
   for files whose instruction lines stand where the file says.
   A second generator (all instruction forms, spellings, bases, address-valued operands, @label/@keep/@nowarn/@equ)
   is judged by the same module for the base / case / -c / label independence clause over all 18 option vectors.
"""
import json
import multiprocessing as mp
import os
import threading
import time
from collections import Counter

from ..lib import cbuild, tlc
from ..lib.common import SPEC, workdir, rmworkdir, seed, log, MachineryError
from ..lib.report import Report
from ..drivers import subfixdrv as D

PID = 'C04'
JENV = {'JAVA_TOOL_OPTIONS': '-Xss32m'}       # the reader is a deep recursive fold; TLC's worker threads need stack
SLIM_DROP = ('text', 'asmerr')


def _mc(rep, results, cfg, am, fm, wd, timeout):
    """model-check SubFixMC with the mode constants rewritten"""
    with open(os.path.join(SPEC, 'doc', cfg)) as f:
        text = f.read()
    text = text.replace('AsmMode = 3', 'AsmMode = %d' % am).replace('FixMode = 3', 'FixMode = %d' % fm)
    path = os.path.join(wd, '%s_%d%d.cfg' % (cfg[:-4], am, fm))
    with open(path, 'w') as f:
        f.write(text)
    name = '%s[%d,%d]' % (cfg[:-4], am, fm)
    try:
        r = tlc.run(os.path.join(SPEC, 'doc'), 'SubFixMC', path, timeout=timeout, tag='SubFixMC-%d%d' % (am, fm))
        tlc.check_machinery(r, name)
        results.append((name, r, None))
    except Exception as e:                                  # re-raised in the main thread
        results.append((name, None, e))


def _simulate(wd, n, sd, workers=8):
    out = os.path.join(wd, 'sim')
    os.makedirs(out, exist_ok=True)
    per = (n + workers - 1) // workers
    r = tlc.run(os.path.join(SPEC, 'doc'), 'SubFixMC', 'SubFix_sim.cfg', workers=workers, timeout=900, tag='SubFix-sim',
                extra=['-simulate', 'file=%s/tr,num=%d' % (out, per), '-depth', '70', '-seed', str(sd + 1)])
    if r.violated or (r.errors and not os.listdir(out)):
        raise MachineryError('SubFix_sim failed\n' + r.out[-3000:])
    progs, seen = [], set()
    for p in D.sim_programs(out):
        p = D.tidy(p)
        if not p:
            continue
        k = json.dumps(p, sort_keys=True)
        if k not in seen:
            seen.add(k)
            progs.append(p)
    return r, progs


def _vectors(i, quick):
    if not quick:
        return D.VECTORS
    return [D.VECTORS[0]] + [D.VECTORS[(i * 5 + j) % 17 + 1] for j in range(5)]


PAIR_MODES = [(1, 2), (3, 3), (2, 1)]


def _pairs(wd):
    """pattern D: TLC enumerates every pair of directives on one instruction (SubFix_pairs.cfg); complete files from the dump"""
    r = tlc.run(os.path.join(SPEC, 'doc'), 'SubFixMC', 'SubFix_pairs.cfg', timeout=600, tag='SubFix-pairs',
                extra=['-dump', os.path.join(wd, 'pairs')])
    tlc.check_machinery(r, 'SubFix_pairs')
    progs = D.dump_programs(os.path.join(wd, 'pairs.dump'), 3)
    if len(progs) < 500:
        raise MachineryError('SubFix_pairs: only %d complete files in the dump' % len(progs))
    return r, progs


def _ifs(wd):
    """pattern D: TLC enumerates every file with one @if-wrapped directive among three instructions (SubFix_ifs.cfg)"""
    r = tlc.run(os.path.join(SPEC, 'doc'), 'SubFixMC', 'SubFix_ifs.cfg', timeout=300, tag='SubFix-ifs',
                extra=['-dump', os.path.join(wd, 'ifs')])
    tlc.check_machinery(r, 'SubFix_ifs')
    progs = D.dump_programs(os.path.join(wd, 'ifs.dump'), 3)
    if len(progs) < 150:
        raise MachineryError('SubFix_ifs: only %d complete files in the dump' % len(progs))
    return r, progs


def _ifs_modes(i):
    """three of the 12 modes per file, rotating over all of them"""
    return [D.BIN_MODES[(i + 4 * j + i // 12) % 12] for j in range(3)]


def _sim_task(args):
    progs, first, sd, wd, quick = args[:5]
    if len(args) > 5:
        import shutil
        fam = args[5]
        d = os.path.join(wd, '%s%d' % (fam[0], first))
        os.makedirs(d, exist_ok=True)
        cases = []
        for i, prog in enumerate(progs):
            vec = [D.VECTORS[0], D.VECTORS[(first + i) % 17 + 1]] if quick else _vectors(first + i, True)
            if fam == 'ifs':
                cases += D.observe(prog, 'ifs%d' % (first + i), 'ifs', d, i, None, _ifs_modes(first + i), vec, html_too=False)
                continue
            cases += D.observe(prog, 'pair%d' % (first + i), 'pairs', d, i, None, PAIR_MODES, vec, html_too=False)
        shutil.rmtree(d, ignore_errors=True)
        return cases
    import random
    import shutil
    d = os.path.join(wd, 'w%d' % first)
    os.makedirs(d, exist_ok=True)
    cases = []
    for i, prog in enumerate(progs):
        rnd = random.Random(sd * 1000003 + first + i)
        cases += D.observe(prog, 'sim%d' % (first + i), 'sim', d, i, rnd, D.BIN_MODES, _vectors(first + i, quick))
        if (first + i) % 3 == 0:      # ... and moved to page 0, where 8-bit immediates equal instruction addresses
            cases += D.observe(D.lowbase(prog), 'sim%d.low' % (first + i), 'sim', d, i, rnd, D.BIN_MODES,
                               _vectors(first + i + 7, quick), base=100)
    shutil.rmtree(d, ignore_errors=True)
    return cases


def _task(t):
    return _sim_task(t[1]) if t[0] == 'sim' else D.g2_worker(t[1])


def _slim(c):
    return {k: v for k, v in c.items() if k not in SLIM_DROP}


def _judge(rep, cases, wd, name):
    """-> (fails [(index, clause)], stats {index: (claimed, definite, stationary, items, dropped)}, notes Counter)"""
    fails, stats, notes = [], {}, Counter()
    step = 3000
    for b in range(0, len(cases), step):
        part = cases[b:b + step]
        r, fl = tlc.judge('doc', 'SubFixCases', 'SubFixCases.cfg', [_slim(c) for c in part],
                          casefile=os.path.join(wd, 'cases.json'), env=JENV)
        rep.add_tlc(r, name, traces=len(part))
        fails += [(b + i, clause) for i, clause in fl]
        for tag, rest in r.notes:
            f = (rest or '').split(', ')
            if tag == 'STAT' and len(f) >= 6:
                stats[b + int(f[0]) - 1] = tuple(int(x) for x in f[1:6])
            elif tag == 'NOTE' and len(f) >= 2:
                notes[f[1].strip('"')] += 1
    if len(stats) != len(cases):
        raise MachineryError('%s: %d STAT lines for %d cases' % (name, len(stats), len(cases)))
    return fails, stats, notes


def _describe(c, clause):
    diff = ''
    if clause in ('asm-image-vs-bin', 'option-dependence', 'skool2asm-failed'):
        plain = next((v[1] for v in c['vecs'] if v[0] == 0), 0)
        odd = [v[0] for v in c['vecs'] if v[1] != plain or v[1] == 0]
        diff = ' option vectors (base*100+case*10+c) that differ from the plain run or failed: %s; %s' % (odd, c.get('asmerr', ''))
    return ('%s: mode (asm %d, fix %d) clause %s.%s skool2bin %s / assembled ASM %s\n%s'
            % (c['key'], c['am'], c['fm'], clause, diff, c['bin'], c['imgs'][:2], c.get('text', '')))


def run(tier):
    rep = Report(PID, tier)
    wd = workdir('c04')
    sd = seed()
    quick = tier == 'quick'
    cbuild.repo_only()
    nsim = 130 if quick else 1000
    ng2 = 96 if quick else 1000
    # ---- A: the specification itself, in the background
    mcres = []
    mcjobs = [('SubFix_mc.cfg', 3, 3), ('SubFix_mcif.cfg', 1, 2)] if quick else [('SubFix_mcif.cfg', 3, 3), ('SubFix_mcif.cfg', 2, 1), ('SubFix_mcif.cfg', 1, 2), ('SubFix_mcif.cfg', 0, 0), ('SubFix_mcx.cfg', 3, 3), ('SubFix_mc.cfg', 1, 2), ('SubFix_mc.cfg', 0, 0),
                                                     ('SubFix_mc.cfg', 2, 1), ('SubFix_mc.cfg', 3, 1)]

    def mc_all():
        for cfg, am, fm in mcjobs:
            _mc(rep, mcres, cfg, am, fm, wd, 240 if quick else 1500)
    nchunk = 48
    per = (ng2 + nchunk - 1) // nchunk
    # every statement of the catalogue (operands that only look like numbers, mixed DEF* items, ...) is dealt out to one of the files
    g2tasks = [('g2', (per, 500000 + k * 1000, sd, wd, D.VECTORS, [D.deal(k * per + i, per * nchunk) for i in range(per)]))
               for k in range(nchunk)]
    pool = mp.get_context('fork').Pool(16)            # forked before the model-checking thread exists
    try:
        g2async = pool.map_async(_task, g2tasks, chunksize=1)
        rp, pairs = _pairs(wd)
        rep.add_tlc(rp, 'SubFix_pairs')
        rep.model_violation(rp, 'SubFix_pairs')
        pasync = pool.map_async(_task, [('sim', (pairs[k::nchunk], k * 10000, sd, wd, quick, 'pairs')) for k in range(nchunk)
                                        if pairs[k::nchunk]], chunksize=1)
        ri, ifs = _ifs(wd)
        rep.add_tlc(ri, 'SubFix_ifs')
        rep.model_violation(ri, 'SubFix_ifs')
        # files are dealt out one by one: file k of the enumeration gets the index k, so that modes rotate over all files
        iasync = pool.map_async(_task, [('sim', ([ifs[j]], j, sd, wd, quick, 'ifs')) for j in range(len(ifs))], chunksize=8)
        th = threading.Thread(target=mc_all)
        th.start()
        # ---- C: files written by TLC
        t0 = time.time()
        rs, progs = _simulate(wd, nsim, sd, workers=6 if quick else 12)
        rep.add_tlc(rs, 'SubFix_sim')
        if len(progs) < nsim // 2:
            raise MachineryError('only %d usable files from %d simulated behaviours\n%s' % (len(progs), nsim, rs.out[-1500:]))
        progs = progs[:nsim]
        log('C04: %d files written by TLC (%.1fs)' % (len(progs), time.time() - t0))
        tasks = [('sim', (progs[k::nchunk], k * 10000, sd, wd, quick)) for k in range(nchunk) if progs[k::nchunk]]
        parts = pool.map(_task, tasks, chunksize=1) + g2async.get() + pasync.get() + iasync.get()
        log('C04: tools done (%.1fs)' % (time.time() - t0))
    finally:
        pool.terminate()
    cases = [c for p in parts for c in p]
    probes = D.probe_cases(wd)
    log('C04: %d cases from generated files, %d probes' % (len(cases), len(probes)))
    # ---- B: TLC judges
    allc = cases + probes
    fails, stats, notes = _judge(rep, allc, wd, 'SubFixCases')
    th.join()
    for name, r, exc in mcres:
        if exc is not None:
            raise exc
        rep.add_tlc(r, name)
        rep.model_violation(r, name)
    for i, clause in fails:
        c = allc[i]
        if c['gen'] == 'probe':
            key = c['key']
        else:
            key = 'c04:%s:%s:m%d%d' % (c['gen'], clause, c['am'], c['fm'])
        rep.violation(key, _describe(c, clause), {k: v for k, v in c.items() if k != 'prog'} | {'prog': c['prog'], 'clause': clause})
    # ---- evidence and vacuity
    cnt = Counter()
    vecs_seen = Counter()
    for i, c in enumerate(allc):
        claimed, definite, stationary, items, dropped = stats[i]
        g = c['gen']
        cnt[g + ':cases'] += 1
        cnt[g + ':claimed'] += claimed
        cnt[g + ':definite'] += definite
        cnt[g + ':peek-judged'] += 1 if stationary and (c['peek']['have'] or c['hpeek']['have']) else 0
        cnt[g + ':asm-compared'] += 1 if claimed and c['hasasm'] else 0
        cnt[g + ':lines-dropped'] += 1 if dropped else 0
        rep.evaluations += 2 + len(c['vecs']) + (1 if c['hpeek']['have'] else 0)
        if claimed:
            rep.nontrivial.add((c['key'], c['am'], c['fm']))
        for v in c['vecs']:
            vecs_seen[(g, v[0])] += 1
    # @if: how often a wrapped directive of each class met a true / false condition, and was in force, per mode
    ifc = Counter()
    for i, c in enumerate(allc):
        if c['gen'] not in ('sim', 'ifs'):
            continue
        claimed, dropped = stats[i][0], stats[i][4]
        m = 'm%d%d' % (c['am'], c['fm'])
        for cls, val, live in D.if_classes(c['prog'], c['am'], c['fm']):
            tf = 'true' if val else 'false'
            ifc['%s:%s' % (cls, tf)] += 1
            ifc['%s:%s' % (m, tf)] += 1
            if cls in ('rem', 'sub-flagged'):
                ifc['%s:%s:%s' % (cls, m, tf)] += 1
            if live and claimed:
                ifc[cls + ':in-force-and-claimed'] += 1
                if cls == 'rem' and dropped:
                    ifc['rem:in-force-claimed-line-dropped'] += 1
                if c['hasasm']:
                    ifc[cls + ':in-force-asm-compared'] += 1
    rep.extra['if_wrapped (class of the wrapped directive : condition value, per mode)'] = dict(ifc)
    lackif = [k for k in ['%s:%s' % (cls, tf) for cls in ('rem', 'sub-flagged', 'sub-plain', 'lab', 'keep', 'nowarn') for tf in ('true', 'false')]
              + ['m%d%d:%s' % (a, f, tf) for a, f in D.BIN_MODES for tf in ('true', 'false')]
              + ['%s:m%d%d:%s' % (cls, a, f, tf) for cls in ('rem', 'sub-flagged') for a, f in D.BIN_MODES for tf in ('true', 'false')]
              + ['rem:in-force-and-claimed', 'rem:in-force-claimed-line-dropped', 'rem:in-force-asm-compared',
                 'sub-flagged:in-force-and-claimed', 'sub-flagged:in-force-asm-compared'] if not ifc[k]]
    if lackif:
        raise MachineryError('vacuous: @if-wrapped directives never exercised: %s of %s' % (lackif, dict(ifc)))
    feat = Counter()
    for p in progs:
        for ln in p:
            feat[ln['l']] += 1
            if ln['l'] == 'sub':
                feat['flags:%d%d%d%d' % (ln['pre'], ln['ovw'], ln['app'], ln['fin'])] += 1
                feat['kind:' + ln['kind']] += 1
                feat['sublabel'] += 1 if ln['lab'] else 0
            elif ln['l'] == 'ins':
                feat['tok:' + ln['tok']['k']] += 1
            elif ln['l'] == 'if':
                feat['if:' + ln['yes']['l']] += 1
    rep.extra['cases'] = dict(cnt)
    rep.extra['model_notes (why a case is outside the claim / not definite)'] = dict(notes)
    rep.extra['generated_lines'] = dict(feat)
    rep.drift = cnt['sim:cases'] - cnt['sim:definite']
    need = [('sim:claimed', cnt['sim:cases'] // 4), ('sim:definite', cnt['sim:cases'] // 6), ('sim:peek-judged', cnt['sim:cases'] // 12),
            ('sim:asm-compared', cnt['sim:cases'] // 6), ('g2:claimed', cnt['g2:cases'] * 9 // 10), ('g2:peek-judged', cnt['g2:cases'] // 2)]
    for k, n in need:
        if cnt[k] < max(n, 1):
            raise MachineryError('vacuous: %s = %d (< %d) of %s' % (k, cnt[k], n, dict(cnt)))
    for cls in ('sub', 'rem', 'blk', 'org', 'lab', 'keep', 'data', 'bytes', 'if', 'gap'):
        if not feat[cls]:
            raise MachineryError('vacuous: no %s line in the simulated files' % cls)
    missing = [f for f in ('flags:%d%d%d%d' % (p, o, a, x) for p in (0, 1) for o in (0, 1) for a in (0, 1) for x in (0, 1) if not (p and a))
               if not feat[f]]
    if missing:
        raise MachineryError('vacuous: flag combinations never generated: %s' % missing)
    # every catalogue statement stands in a g2 file whose ASM was compared under every option vector
    catseen = {}
    for i, c in enumerate(allc):
        if c['gen'] == 'g2' and stats[i][0] and c['hasasm']:
            for ln in c['prog']:
                if ln['l'] == 'ins' and ln['tok'].get('cat'):
                    catseen.setdefault(ln['tok']['cat'], set()).update(v[0] for v in c['vecs'])
    allv = {D.vec_code(v) for v in D.VECTORS}
    lackc = [t for t in D.CATALOGUE if catseen.get(t, set()) != allv]
    rep.extra['catalogue'] = {'statements': len(D.CATALOGUE), 'compared under all option vectors': len(D.CATALOGUE) - len(lackc)}
    if lackc:
        raise MachineryError('vacuous: catalogue statements not compared under all 18 option vectors: %s' % lackc[:20])
    for g in ('sim', 'g2'):
        lack = [D.vec_code(v) for v in D.VECTORS if not vecs_seen[(g, D.vec_code(v))]]
        if lack:
            raise MachineryError('vacuous: option vectors never run for %s: %s' % (g, lack))
    if cnt['pairs:claimed'] < cnt['pairs:cases'] // 2 or cnt['ifs:claimed'] < cnt['ifs:cases'] // 2:
        raise MachineryError('vacuous: pairs / ifs %s' % dict(cnt))
    for g in ('sim', 'g2', 'pairs', 'ifs'):
        c = next(c for c in allc if c['gen'] == g)
        rep.sample({'key': c['key'], 'mode': [c['am'], c['fm']], 'skool': c['text'].split('\n')[7:30], 'bin': c['bin'], 'vecs': c['vecs']})
    rep.rule = ('sim: files written by TLC (-simulate of SubFix: <= 6 instruction lines from a token alphabet whose bytes identify '
                'the token, @*sub/@*fix directives of all 12 flag combinations without >+ and all six kinds, with/without labels, '
                '! removal, +/- blocks, @org, @label, @keep, @bytes, @defb/@defs/@defw, @if) x 12 skool2bin modes (9 of them '
                'skool2asm modes) x option vectors (quick: 6 per file rotating over all 18; thorough: 18); g2: random files over '
                'all instruction forms and operand spellings x 4 modes x 18 vectors; pairs: every file TLC enumerates with 0-2 '
                'directives (12 flag combinations x with/without instruction) on the first of three instructions x 3 modes; '
                'ifs: every file TLC enumerates with one @if-wrapped directive (a flagged @*sub/@*fix on the first, a ! removal / '
                '@label / @keep / @nowarn before any of three instructions; conditions over {asm} / {fix}, and over {base} / {case} / '
                '{html} / {vars[..]} around @nowarn) x 3 of the 12 modes rotating; in sim files @if wraps directives of every kind '
                '(all flag combinations, removals, @org, @label, @keep, @nowarn, @defb/@defs/@defw, @bytes) under every relation; '
                'distinct_nontrivial = (file, mode) pairs '
                'inside the claim (no model note of SubFix!UnclaimedNotes)')
    rep.assumptions = [
        'the reference resolver assembles every instruction of skool2asm\'s output with skoolkit.z80.Assembler (trusted through C02)',
        'skool2asm is always at least in @isub mode: its default run is compared with skool2bin -i, -f N with -i plus -o/-b/-R, '
        'HTML mode (no directive executed) with skool2bin without mode options',
        'the ASM = skool2bin claim is not made where the documentation lets the tools differ: @org not on the first instruction of '
        'an entry, an operand naming an unlabelled instruction that moved, @bytes that differs from the instruction, directives '
        'attached to a removed instruction, | after an instruction without known address, > together with +, @keep with inserted '
        'instructions (each is a note of SubFix.tla; such cases are counted, not judged)',
        'the #PEEK clause is judged for files whose instruction lines all carry their address, sit there in the mode in force and '
        'are all kept; the three documented usages outside that class fail on the unchanged tree and are probes with their own keys',
        '@defb/@defs/@defw reach skool2bin only with --data: #PEEK is compared with the --data image, the assembled ASM with the plain one',
    ]
    rmworkdir('c04')
    return rep.finish()


def replay(path):
    """./check C04 --replay replays/C04-n.json : render that abstract file again, rerun the tools in its mode, judge again"""
    with open(path) as f:
        d = json.load(f)
    rp = d.get('replay') or {}
    print('replay of %s: key %s' % (path, d.get('key')))
    if 'prog' not in rp:
        print('  (model violation: rerun ./check C04)')
        return 0
    wd = workdir('c04-replay')
    cbuild.repo_only()
    cases = D.observe(rp['prog'], rp['key'], rp['gen'], wd, 0, None, [(rp['am'], rp['fm'])], D.VECTORS, probe=rp.get('probe', 0),
                      base=rp.get('base', D.BASE), text=rp.get('text'))
    r, fails = tlc.judge('doc', 'SubFixCases', 'SubFixCases.cfg', [_slim(c) for c in cases], casefile=os.path.join(wd, 'cases.json'), env=JENV)
    for i, clause in fails:
        print('  ' + _describe(cases[i], clause)[:1500])
    rmworkdir('c04-replay')
    print('VIOLATION reproduced' if fails else 'no violation on replay')
    return 1 if fails else 0
