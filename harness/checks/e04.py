"""E04 (extension) - audio generation: skoolkit/audio.py (beeper delays -> WAV) and skoolkit/ay.py (AY-3-8912 register log -> WAV)
as used by the #AUDIO macro and by trace.py.

(A) spec/audio/AudioMC.tla: the documented contention / interrupt adjustments executed T-state by T-state, against the segment-wise
    closed form Audio!Adjust, plus the rendering operators (sample periods tile the time axis, high time preserved, duration = number
    of samples, steady levels, canonical RIFF header).  spec/audio/AudioAYMC.tla: the AY generators as a state machine against the
    data sheet's closed forms (tone / noise / envelope rates, the sixteen envelope shapes, mixer, masks, jump-ahead = single ticks).
(B) generated delay lists / register logs go through the real code (drivers/audiodrv.py: component API, #AUDIO via skool2html,
    trace.py); an independent RIFF reader projects each file; spec/audio/AudioCases.tla (TLC) decides:
      verdict - RIFF/WAVE PCM container; channels and sample rate; duration; beeper: two steady levels at the documented flip times
                (contention / interrupt adjustments as documented, +- one T-state per contended segment), silence at volume 0;
                AY: tone / noise run lengths, envelope shapes as level sequences, level order of the D/A, mixer, stereo placement,
                register sampling at ay_res, silence when off
      drift   - everything else: the exact sample values against the [impl] operators of Audio.tla (moving average, offset binary,
                float boundaries, LFSR, D/A table, frame/tick schedule).  Counted, never a violation.
Defect candidates (named deviations of the specification) are listed in CANDIDATES: reported, exit status 0 until the lead decides.
"""
import collections
import json
import multiprocessing as mp
import os
import threading

from ..lib import cbuild, tlc
from ..lib.common import workdir, rmworkdir, seed, log, MachineryError
from ..lib.report import Report
from ..drivers import audiodrv

PID = 'E04'
NW = 16
# per worker: beeper API cases, AY API cases, skool2html runs (3-6 #AUDIO macros each), trace.py runs
SIZES = {'quick': (70, 48, 3, 3), 'thorough': (3200, 2200, 48, 48)}
MC = {'quick': (('AudioMC', 'Audio_mcq.cfg', 20000), ('AudioAYMC', 'AudioAY_mcq.cfg', 20000)),
      'thorough': (('AudioMC', 'Audio_mc.cfg', 300000), ('AudioAYMC', 'AudioAY_mc.cfg', 300000))}
DROP = ('cls', 'over', 'is128', 'macro', 'kind', 'route')

# Defect candidates reported to the lead and not (yet) listed in known_findings.json: printed as CANDIDATE-FINDING lines and recorded
# in evidence; they do not fail the check unless VERIF_E04_STRICT=1.  Once a key is in known_findings.json (or fixed) remove it here.
CANDIDATES = {
    'beeper:adjust:ImplSpanBook':
        '#AUDIO sim=0 cmio=1: a delay that outlasts a whole contended period is accounted for wrongly (AudioWriter._add_contention '
        'advances d_offset by the program T-states done, not by the real T-states elapsed): that delay and the frame position after '
        'it are too long, e.g. delays (50000) at offset 10000 (48K) -> 66922 instead of 64493',
    'beeper:adjust:ImplFirstDelayExempt':
        '#AUDIO sim=0 execint=1: the first delay of the list never takes the interrupt delay, also when it crosses a frame boundary '
        '(`if i:` in AudioWriter._add_contention), e.g. delays (80000,1000) at offset 0 (48K) -> 80000 instead of 80895',
    'beeper:adjust:ImplSpanBook+ImplFirstDelayExempt': 'both of the above in one delay list',
    'beeper:adjust:ImplSpanBook:hang':
        'the same bookkeeping makes the remainder of a delay grow from frame to frame when the contended period is long and slow: '
        '[AudioWriter] FrameDuration=16000 ContentionBegin=1000 ContentionEnd=15000 ContentionFactor=150, #AUDIO(0,cmio=1,offset=15380)(x.wav)(13936) '
        'never returns',
    'ay:clock:ImplTickPerEighthSample':
        'AYAudioWriter with SampleRate < 27710 Hz ([AudioWriter] SampleRate): the chip is clocked at most once per 1/8 sample, so tone, '
        'noise and envelope run too slowly (at 22050 Hz a tone is 20% flat)',
}

# repaired in /repo (fix commits e0b2cb9, ed48092; see known_findings.json): a recurrence is a violation
REPAIRED = {'beeper:adjust:ImplSpanBook', 'beeper:adjust:ImplFirstDelayExempt', 'beeper:adjust:ImplSpanBook+ImplFirstDelayExempt',
            'beeper:adjust:ImplSpanBook:hang'}


def _mc(box, name, module, cfg):
    try:
        box[name] = tlc.model_check('audio', module, cfg, coverage=False, workers=4, timeout=3000)
    except BaseException as e:
        box[name] = e


def key_of(c, clause):
    kind = 'beeper' if c['k'] == 'b' else 'ay'
    if clause.startswith('adjust:'):
        return '%s:%s' % (kind, clause)
    if clause.startswith('clock:'):
        return '%s:%s' % (kind, ':'.join(clause.split(':')[:2]))
    short = ':'.join(p for p in clause.split(':') if not (p[:4] in ('want', 'got') or p[:1] == 'k' and p[1:].isdigit()))
    return '%s:%s:%s' % (kind, c['route'], short)


def describe(c, clause):
    if c['k'] == 'b':
        d = c['delays']
        return ('%s via %s: clause %s; [AudioWriter] %s, 128K=%d, options %s, %d delays %s%s'
                % ('beeper', c['route'], clause, c['over'] or 'defaults', c['is128'], c['opt'], len(d), d[:12], '...' if len(d) > 12 else ''))
    return ('AY via %s: clause %s; [AudioWriter] %s, options %s, log %s ... %s'
            % (c['route'], clause, c['over'] or 'defaults', c['opt'], c['log'][:8], c['log'][-1:]))


def replay_obj(c, clause):
    r = {k: v for k, v in c.items() if k != 'wav'}
    r['clause'] = clause
    r['wav_head'] = {k: v for k, v in c['wav'].items() if k != 'samples'}
    r['samples_head'] = c['wav']['samples'][:64]
    return r


def judge(rep, cases, wd, parts):
    batches, cur, size = [], [], 0
    for i, c in enumerate(cases):
        n = 8 * len(c['wav']['samples']) + 12 * len(c.get('delays', ())) * 2 + 16 * len(c.get('log', ())) + 600
        if cur and size + n > 30_000_000:
            batches.append(cur)
            cur, size = [], 0
        cur.append(i)
        size += n
    if cur:
        batches.append(cur)
    drift, tags = collections.Counter(), collections.Counter()
    for bi, idxs in enumerate(batches):
        part = [{k: v for k, v in cases[i].items() if k not in DROP} for i in idxs]
        r, fails = tlc.judge('audio', 'AudioCases', 'AudioCases.cfg', part, casefile=os.path.join(wd, 'cases%d.json' % bi), timeout=3000)
        rep.add_tlc(r, 'AudioCases', traces=len(part))
        for j, clause in fails:
            c = cases[idxs[j]]
            if clause.startswith('machinery'):
                raise MachineryError('AudioCases: %s for %s' % (clause, describe(c, clause)))
            key = key_of(c, clause)
            what = describe(c, clause)
            if key in CANDIDATES and key not in REPAIRED and os.environ.get('VERIF_E04_STRICT') != '1' and key not in rep.known:
                parts['cand'][key] += 1
                parts['cand_ex'].setdefault(key, what)
                continue
            rep.violation(key, what, replay_obj(c, clause))
        seen_tag = 0
        for name, rest in r.notes:
            if not rest:
                continue
            tid, _, val = rest.partition(', ')
            val = val.strip('"')
            if name == 'DRIFT':
                c = cases[idxs[int(tid) - 1]]
                kind = ':'.join(p for p in val.split(':') if not (p[:4] in ('want', 'got') or p[:1] in 'ki' and p[1:].isdigit()))
                drift[('beeper:' if c['k'] == 'b' else 'ay:') + kind] += 1
                if len(parts['drift_ex']) < 8:
                    parts['drift_ex'].append(describe(c, 'drift ' + val)[:500])
            elif name == 'TAG':
                seen_tag += 1
                for t in val.split(':')[1:]:
                    tags[val[0] + ':' + t] += 1
                tags[val] += 1
        if seen_tag != len(part):
            raise MachineryError('AudioCases: %d TAG lines for %d cases' % (seen_tag, len(part)))
    return drift, tags


REQ_CLS = ['plain', 'cmio', 'ints', 'both'] + ['target:' + t for t in ('cb', 'in', 'ce', 'fd', 'zero', 'random', 'span', 'fcross', 'fdtie', 'two')] + \
          ['tone', 'noise', 'dc', 'env', 'speech', 'mix', 'music', 'silent', 'bpr', 'tonenoise', 'beeper-in-log', 'trace:beeper', 'trace:ay',
           'trace:ay+beeper']
REQ_TAGS = ['b:first', 'b:second', 'b:mixed', 'b:contended', 'b:span', 'b:fcross', 'b:longer', 'a:vol0', 'a:bpr', 'a:speech', 'a:dynamic',
            'a:static:silent', 'a:static:several', 'a:static:fixed11', 'a:static:fixed01', 'a:static:fixed10', 'a:static:fixed00', 'a:static:env11',
            'a:lowrate']


def vacuity(cases, tags, rep):
    cls = collections.Counter()
    routes = collections.Counter()
    for c in cases:
        routes[(c['k'], c['route'])] += 1
        for x in c['cls']:
            cls[x] += 1
        if c['k'] == 'a':
            cls['mode%d' % c['opt']['mode']] += 1
            if c['wav']['fmt'] and c['wav']['fmt'][1] == 2:
                cls['stereo-file'] += 1
        if c['opt']['vol'] == 0:
            cls['vol0'] += 1
        if c['opt']['vol'] not in (0, 100):
            cls['vol-other'] += 1
        if c['over']:
            cls['custom [AudioWriter]'] += 1
        if c['k'] == 'b' and c['is128']:
            cls['beeper-128k'] += 1
    problems = [x for x in REQ_CLS + ['mode0', 'mode1', 'mode2', 'stereo-file', 'vol0', 'vol-other', 'custom [AudioWriter]', 'beeper-128k'] if not cls[x]]
    problems += ['route %s/%s' % kr for kr in (('b', 'api'), ('b', 'macro'), ('b', 'trace'), ('a', 'api'), ('a', 'macro'), ('a', 'trace')) if not routes[kr]]
    problems += ['analysis ' + t for t in REQ_TAGS if not tags[t]]
    if problems:
        raise MachineryError('vacuous E04 run: nothing of: ' + '; '.join(problems))
    rep.extra['generator_classes'] = dict(sorted(cls.items()))
    rep.extra['routes'] = {'%s/%s' % k: v for k, v in sorted(routes.items())}
    rep.extra['analyses'] = {k: v for k, v in sorted(tags.items()) if k.count(':') == 1 or k.startswith('a:static')}


def run(tier):
    rep = Report(PID, tier)
    wd = workdir('e04')
    sd = seed()
    cbuild.preload()
    box = {}
    threads = [threading.Thread(target=_mc, args=(box, cfg, module, cfg)) for module, cfg, _ in MC[tier]]
    for th in threads:
        th.start()
    sizes = SIZES[tier]
    jobs = [(sd, wi, wd) + sizes for wi in range(NW)]
    with mp.get_context('fork').Pool(NW) as pool:
        res = pool.map(audiodrv.work, jobs)
    cases = [c for cs, _ in res for c in cs]
    errors = [e for _, es in res for e in es]
    log('E04: %d WAV files, %d failed runs (%s s)' % (len(cases), len(errors), rep.timer.s()))
    parts = dict(cand=collections.Counter(), cand_ex={}, drift_ex=[])
    for e in errors:
        c = e['case']
        if isinstance(c, dict) and c.get('cls') == ['probe:diverging-span'] and e['exc'].startswith('Hang'):
            key = 'beeper:adjust:ImplSpanBook:hang'
            if key not in REPAIRED and os.environ.get('VERIF_E04_STRICT') != '1' and key not in rep.known:
                parts['cand'][key] += 1
                parts['cand_ex'].setdefault(key, e['exc'])
            else:
                rep.violation(key, CANDIDATES[key], {k: v for k, v in c.items() if k != 'wav'})
            continue
        rep.violation('exception:%s:%s:%s' % (e['route'], e['k'], e['exc'].split(':')[0]),
                      '%s route, %s: %s' % (e['route'], 'beeper' if e['k'] == 'b' else 'AY', e['exc'][:400]),
                      {k: v for k, v in c.items() if k != 'wav'} if isinstance(c, dict) else c)
    drift, tags = judge(rep, cases, wd, parts)
    for th in threads:
        th.join()
    for module, cfg, floor in MC[tier]:
        r = box.get(cfg)
        if isinstance(r, BaseException):
            raise r
        rep.add_tlc(r, cfg.replace('.cfg', ''))
        rep.model_violation(r, cfg.replace('.cfg', ''))
        if r.distinct < floor:
            raise MachineryError('%s explored only %d states' % (cfg, r.distinct))
    if not rep.violations:                  # a wholesale failure (every file invalid) must be reported as such, not as a vacuous run
        vacuity(cases, tags, rep)
    for c in cases:
        rep.count((c['k'], c['route'], tuple(c['cls']), tuple(sorted(c['over'])), c['opt'].get('mode', 0), c['opt'].get('cmio', 0), c['opt'].get('ints', 0)))
    for c in cases[:2] + [c for c in cases if c['route'] == 'macro'][:2] + [c for c in cases if c['route'] == 'trace'][:2]:
        s = {k: v for k, v in c.items() if k not in ('wav', 'adj', 'cfg')}
        for k in ('delays', 'log'):
            if k in s:
                s[k] = s[k][:10]
        s['samples'] = len(c['wav']['samples'])
        rep.sample(s)
    rep.drift = sum(drift.values())
    for key, cnt in sorted(parts['cand'].items()):
        print('CANDIDATE-FINDING: property=%s %s (x%d): %s' % (PID, key, cnt, CANDIDATES[key][:300]))
    rep.extra.update(drift_kinds=dict(drift), drift_examples=parts['drift_ex'],
                     candidate_findings={k: {'count': n, 'what': CANDIDATES[k], 'example': parts['cand_ex'][k][:700]} for k, n in parts['cand'].items()})
    rep.rule = ('one evaluation = one WAV file written by the real code and read back by the harness: beeper = delay lists (tones, sweeps, '
                'sub-sample delays, zero delays, long delays) x [AudioWriter] parameters (defaults 48K/128K, small frames, clock / sample rates, '
                'factors, interrupt delay lists) x cmio/execint/offset placed before, in, after the contended period, at the frame boundary, '
                'spanning the period, first delay across a frame x volume; AY = register logs (tone, noise, DC, envelope shapes 0-15, speech-like '
                'level streams, mixes, changing registers, rubbish in unused bits) x ay_res x MONO/ABC/ACB x volume x sample rates x beeper mixed '
                'in; routes: component API, #AUDIO through skool2html (delays grammar, positional / keyword parameters, sim=1 ay=1 in a 128K '
                'snapshot), trace.py (--audio list vs WAV, --ay/--beeper/--ay-mode/--ay-res/--volume); distinct = (kind, route, generator '
                'classes, overridden parameters, mode, cmio, execint)')
    rep.assumptions = [
        'RIFF chunk walking and little endian decoding are done by the harness reader (trusted projection); whether the fields make a valid '
        'file and the right samples is decided by TLC',
        'the documentation fixes the flip times and the two steady levels, not the value of a sample that contains a flip: the moving average, '
        'the offset binary encoding, float rounding ties, the LFSR, the D/A table and the frame/tick schedule are [impl] operators (drift)',
        'frame position of a delay that ends exactly on a frame boundary, the first delay starting at offset 0 and truncation of scaled amounts '
        'are modelled as skoolkit does them (the documentation is silent)',
        'AY timing statements are judged only where the data sheet implies them for point samples (half period >= 1.25 samples etc.)',
        'delays and log times below 2^31; T-states per sample <= 300']
    rmworkdir('e04')
    return rep.finish()
