"""Shared paths and helpers for the /verif harness."""
import os
import shutil
import sys
import time

VERIF = os.path.dirname(os.path.dirname(os.path.dirname(os.path.abspath(__file__))))
REPO = os.environ.get('VERIF_REPO', '/repo')
SPEC = os.path.join(VERIF, 'spec')
WORK = os.path.join(VERIF, '.work') if REPO == '/repo' else os.path.join(VERIF, '.work', 'alt-' + os.path.basename(REPO))
# try_mutant.sh redirects evidence so that runs against a mutated scratch tree never overwrite real evidence
EVIDENCE = os.environ.get('VERIF_EVIDENCE_DIR') or os.path.join(VERIF, 'evidence')
REPLAYS = os.path.join(VERIF, 'replays')
PY = '/venv/bin/python'
GUARD = 'SKOOLKIT_VERIF'


def workdir(name, clean=True):
    d = os.path.join(WORK, name)
    if clean and os.path.isdir(d):
        shutil.rmtree(d, ignore_errors=True)
    os.makedirs(d, exist_ok=True)
    return d


def rmworkdir(name):
    shutil.rmtree(os.path.join(WORK, name), ignore_errors=True)


def seed():
    try:
        return int(os.environ.get('VERIF_SEED', '0'))
    except ValueError:
        return 0


class Timer:
    def __init__(self):
        self.t0 = time.time()

    def s(self):
        return round(time.time() - self.t0, 2)


def log(*a):
    print(*a, file=sys.stderr, flush=True)


class MachineryError(Exception):
    """The verification machinery itself failed (exit 2, never a VIOLATION)."""
