"""Rebuild the two C extension modules from /repo/c/csimulator.c and preload them.

The .so files lying in /repo/skoolkit are untracked and may be stale, so every check that touches
a simulator builds fresh ones (keyed by the sha256 of the C file) and makes `import skoolkit` pick
them up, both in-process (preload) and in subprocesses (shim dir with sitecustomize.py on PYTHONPATH).
"""
import hashlib
import importlib.machinery
import importlib.util
import os
import subprocess
import sys
import sysconfig

from .common import REPO, WORK, PY, MachineryError

SUFFIX = '.cpython-312-x86_64-linux-gnu.so'


def _sha():
    with open(os.path.join(REPO, 'c', 'csimulator.c'), 'rb') as f:
        return hashlib.sha256(f.read()).hexdigest()[:20]


def build():
    """Returns the directory holding csimulator/ccmiosimulator .so built from the current C source."""
    d = os.path.join(WORK, 'cmods', _sha())
    a = os.path.join(d, 'csimulator' + SUFFIX)
    b = os.path.join(d, 'ccmiosimulator' + SUFFIX)
    if os.path.isfile(a) and os.path.isfile(b) and os.path.isfile(os.path.join(d, 'sitecustomize.py')):
        return d
    os.makedirs(d, exist_ok=True)
    inc = subprocess.run([PY, '-c', "import sysconfig;print(sysconfig.get_paths()['include'])"],
                         stdout=subprocess.PIPE, text=True).stdout.strip()
    src = os.path.join(REPO, 'c', 'csimulator.c')
    procs = []
    for out, flags in ((a, []), (b, ['-DCONTENTION'])):
        tmp = out + '.tmp%d' % os.getpid()
        procs.append((out, tmp, subprocess.Popen(['gcc', '-O2', '-shared', '-fPIC'] + flags + ['-I' + inc, src, '-o', tmp],
                                                 stdout=subprocess.PIPE, stderr=subprocess.STDOUT, text=True)))
    for out, tmp, p in procs:
        o, _ = p.communicate()
        if p.returncode != 0:
            raise MachineryError('C build failed:\n' + o[-3000:])
        os.replace(tmp, out)
    with open(os.path.join(d, 'sitecustomize.py'), 'w') as f:
        f.write(SHIM % (a, b))
    return d


SHIM = '''import importlib.machinery, importlib.util, sys
def _pl(name, path):
    loader = importlib.machinery.ExtensionFileLoader(name, path)
    spec = importlib.util.spec_from_file_location(name, path, loader=loader)
    mod = importlib.util.module_from_spec(spec)
    loader.exec_module(mod)
    sys.modules[name] = mod
_pl('skoolkit.csimulator', %r)
_pl('skoolkit.ccmiosimulator', %r)
'''


def preload():
    """Build + load into this process. Must be called before `import skoolkit`."""
    if 'skoolkit' in sys.modules and 'skoolkit.csimulator' not in sys.modules:
        raise MachineryError('skoolkit imported before cbuild.preload()')
    d = build()
    if 'skoolkit.csimulator' not in sys.modules:
        for name in ('csimulator', 'ccmiosimulator'):
            full = 'skoolkit.' + name
            path = os.path.join(d, name + SUFFIX)
            loader = importlib.machinery.ExtensionFileLoader(full, path)
            spec = importlib.util.spec_from_file_location(full, path, loader=loader)
            mod = importlib.util.module_from_spec(spec)
            loader.exec_module(mod)
            sys.modules[full] = mod
    if REPO not in sys.path:
        sys.path.insert(0, REPO)
    import skoolkit
    if not os.path.abspath(skoolkit.__file__).startswith(os.path.abspath(REPO) + os.sep):
        raise MachineryError('skoolkit imported from %s, not %s' % (skoolkit.__file__, REPO))
    if skoolkit.CSimulator is None or skoolkit.CCMIOSimulator is None:
        raise MachineryError('C simulators not loaded')
    return d


def repo_only():
    """Import skoolkit from REPO without caring about C modules (pure-Python tools)."""
    if REPO not in sys.path:
        sys.path.insert(0, REPO)


def sub_env(with_c=True):
    """Environment for CLI subprocesses: fresh C modules + /repo sources."""
    e = dict(os.environ)
    pp = [REPO]
    if with_c:
        pp.insert(0, build())
    e['PYTHONPATH'] = os.pathsep.join(pp)
    e['PYTHONHASHSEED'] = '0'
    e['PYTHONDONTWRITEBYTECODE'] = '1'
    return e
