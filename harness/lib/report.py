"""Per-check report: accumulates coverage counters and violations, writes evidence/<id>.json and
replay files, prints VIOLATION / KNOWN-FINDING lines and yields the exit status."""
import json
import os
import sys

from . import findings
from .common import EVIDENCE, REPLAYS, Timer, seed, log


_INT_KEYS = ('evaluations', 'distinct_nontrivial', 'states', 'transitions', 'traces_validated_against_impl', 'obligations',
             'discharged', 'programs', 'disagreements_checked')


def _check_evidence_shape(ev):
    """The evidence schema types a few coverage keys; a check that reuses one of those names for something else would
    write a file that does not validate (jsonschema is not importable in /venv, so the typed keys are checked here)."""
    from .common import MachineryError
    cov = ev['coverage']
    for k in _INT_KEYS:
        if k in cov and not (isinstance(cov[k], int) and not isinstance(cov[k], bool) and cov[k] >= 0):
            raise MachineryError('evidence: coverage.%s must be a non-negative integer, got %r' % (k, cov[k]))
    if not isinstance(cov.get('samples'), list) or not cov['samples']:
        raise MachineryError('evidence: coverage.samples must be a non-empty list')
    for k in ('rule', 'explanation', 'checker_cmd'):
        if k in cov and not isinstance(cov[k], str):
            raise MachineryError('evidence: coverage.%s must be a string' % k)
    if 'exhaustive' in cov and not isinstance(cov['exhaustive'], bool):
        raise MachineryError('evidence: coverage.exhaustive must be a boolean')
    if 'trusted_base' in cov and not (isinstance(cov['trusted_base'], list) and all(isinstance(x, str) for x in cov['trusted_base'])):
        raise MachineryError('evidence: coverage.trusted_base must be a list of strings')


class Report:
    def __init__(self, pid, tier, level='model_checking'):
        self.pid = pid
        self.tier = tier
        self.level = level
        self.timer = Timer()
        self.states = 0            # TLC distinct states over all runs
        self.transitions = 0       # TLC generated states (= transitions examined)
        self.traces = 0            # cases / traces from the implementation judged by TLC
        self.evaluations = 0       # implementation executions
        self.nontrivial = set()    # distinct non-trivial case keys (hashable)
        self.nontrivial_count = 0  # or a measured count when keys are too many to keep
        self.samples = []
        self.rule = ''
        self.extra = {}
        self.assumptions = []
        self.violations = []       # (key, what, replay_obj)
        self.known = findings.load(pid)
        self.known_hit = {}
        self.tlc_runs = []
        self.drift = 0
        self.exhaustive = False

    # ---- accumulation -------------------------------------------------
    def add_tlc(self, r, name=None, traces=0):
        self.states += r.distinct
        self.transitions += r.generated
        self.traces += traces
        self.tlc_runs.append(dict(name=name or '', **r.summary()))

    def sample(self, obj, limit=6):
        if len(self.samples) < limit:
            self.samples.append(obj)

    def count(self, key=None, n=1):
        self.evaluations += n
        if key is not None:
            self.nontrivial.add(key)

    def violation(self, key, what, replay=None):
        """key: stable identifier of the failing input/call site (matched against known_findings.json)."""
        for k, ent in self.known.items():
            if key == k or (ent.get('match') == 'prefix' and key.startswith(k)):
                self.known_hit.setdefault(k, ent)
                return False
        self.violations.append((key, what, replay))
        return True

    def model_violation(self, r, name):
        """A TLC invariant violation on the specification itself (pattern A) is a violation of the
        design model; report as violation keyed by invariant."""
        for inv in r.violated:
            self.violation('model:%s:%s' % (name, inv), 'TLC: invariant %s violated in %s' % (inv, name),
                           {'tlc_output_tail': r.out[-3000:]})

    # ---- finish ---------------------------------------------------------
    def finish(self):
        os.makedirs(EVIDENCE, exist_ok=True)
        os.makedirs(REPLAYS, exist_ok=True)
        for fn in os.listdir(REPLAYS):
            if fn.startswith(self.pid + '-') and EVIDENCE.startswith(os.path.join(os.path.dirname(REPLAYS), 'evidence')):
                os.remove(os.path.join(REPLAYS, fn))
        dn = max(len(self.nontrivial), self.nontrivial_count)
        cov = dict(
            states=self.states, transitions=self.transitions,
            traces_validated_against_impl=self.traces,
            evaluations=self.evaluations, distinct_nontrivial=dn,
            rule=self.rule, samples=self.samples or ['(none)'],
            tlc_runs=self.tlc_runs, drift=self.drift, exhaustive=self.exhaustive,
            known_findings_reproduced=sorted(self.known_hit),
        )
        cov.update(self.extra)
        vk = {}
        for key, what, _ in self.violations:
            vk.setdefault(key, [0, what[:300]])[0] += 1
        if vk:
            cov['violation_keys'] = dict(sorted(vk.items(), key=lambda kv: -kv[1][0])[:200])
        ev = dict(property_id=self.pid, tier=self.tier, seed=seed(), level=self.level, coverage=cov,
                  assumptions=self.assumptions, wall_s=self.timer.s(), violations=len(self.violations))
        _check_evidence_shape(ev)
        with open(os.path.join(EVIDENCE, self.pid + '.json'), 'w') as f:
            json.dump(ev, f, indent=1, default=str)
        for k, ent in sorted(self.known_hit.items()):
            print('KNOWN-FINDING: property=%s %s' % (self.pid, ent['what']))
        if not self.violations:
            print('OK property=%s tier=%s states=%d traces=%d evaluations=%d wall=%.1fs'
                  % (self.pid, self.tier, self.states, self.traces, self.evaluations, self.timer.s()))
            sys.stdout.flush()
            return 0
        shown = 0
        seen = {}
        for key, what, replay in self.violations:
            seen.setdefault(key, []).append((what, replay))
        for i, (key, lst) in enumerate(sorted(seen.items(), key=lambda kv: -len(kv[1]))):
            if shown >= 12:
                break
            what, replay = lst[0]
            path = os.path.join(REPLAYS, '%s-%d.json' % (self.pid, i))
            with open(path, 'w') as f:
                json.dump(dict(property=self.pid, key=key, what=what, replay=replay, occurrences=len(lst)), f, indent=1, default=str)
            print('VIOLATION property=%s replay=%s' % (self.pid, path))
            print('  %s (x%d): %s' % (key, len(lst), what[:400]))
            shown += 1
        if len(seen) > shown:
            print('  ... %d more distinct violation keys' % (len(seen) - shown))
        sys.stdout.flush()
        return 1
