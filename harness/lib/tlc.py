"""Run TLC / SANY and parse what they print.

Patterns (DESIGN §2.2):
  A  model_check(): exhaustive BFS of Spec_mc.cfg, invariants + coverage
  B  judge(): batch trace validation - the harness writes a JSON array of cases, the
     trace module's Next computes verdict' = Judge(Cases[tid]) for every tid and
     PrintT's <<"FAIL", tid, clause>> for every case whose verdict is not "ok"
  C  simulate(): -simulate behaviours written to files for replay into the code
  D  (same as A with Init enumerating a finite space and an Impl table constant)
"""
import json
import os
import re
import shutil
import subprocess
import time

from .common import SPEC, WORK, MachineryError, log

JAR = '/opt/veriftools/tla/tla2tools.jar:/opt/veriftools/tla/CommunityModules-deps.jar'


class TLCResult:
    def __init__(self):
        self.out = ''
        self.rc = None
        self.generated = 0
        self.distinct = 0
        self.depth = 0
        self.ok = False              # "No error has been found"
        self.violated = []           # invariant / property names
        self.errors = []             # other error lines
        self.fails = []              # [(tid, clause)] from PrintT <<"FAIL", tid, clause>>
        self.notes = []              # other PrintT tuples: list of python lists
        self.coverage = {}           # action name -> (distinct, total)
        self.wall = 0.0
        self.cmd = ''

    def summary(self):
        return dict(generated=self.generated, distinct=self.distinct, depth=self.depth,
                    ok=self.ok, violated=self.violated, wall_s=round(self.wall, 2))


_STATS = re.compile(r'(\d+) states generated, (\d+) distinct states found, (\d+) states left')
_DEPTH = re.compile(r'The depth of the complete state graph search is (\d+)')
_INV = re.compile(r'Error: Invariant (\S+) is violated')
_PROP = re.compile(r'Error: (?:Action|Temporal) propert(?:y|ies) (\S+)? ?(?:is|were) violated')
_FAIL = re.compile(r'<<"FAIL", (-?\d+), "([^"]*)">>')
_NOTE = re.compile(r'^<<"([A-Z]+)"(?:, (.*))?>>\s*$')
_COV = re.compile(r'^<(\w+) line \d+, col \d+ to line \d+, col \d+ of module (\w+)>: (\d+):(\d+)')


def _java(heap='8g'):
    return ['java', '-XX:+UseParallelGC', '-Xmx' + heap, '-cp', JAR]


SHARED = ('Z80.tla', 'Z80Bits.tla', 'Z80Asm.tla')
_copies_ok = False


def check_copies():
    """TLC resolves EXTENDS relative to the module's directory, so the shared Z80 modules exist as copies in several
    spec directories; they must be byte-identical (one specification, not several)."""
    global _copies_ok
    if _copies_ok:
        return
    for name in SHARED:
        seen = {}
        for d in sorted(os.listdir(SPEC)):
            f = os.path.join(SPEC, d, name)
            if os.path.isfile(f):
                with open(f, 'rb') as fh:
                    seen.setdefault(fh.read(), []).append(d)
        if len(seen) > 1:
            raise MachineryError('copies of %s differ between spec directories: %s' % (name, sorted(seen.values())))
    _copies_ok = True


def run(module_dir, module, cfg, *, env=None, workers=16, timeout=3600, extra=(), tag=None,
        coverage=False, heap='8g', dfs=False):
    """Run TLC on module_dir/module.tla with module_dir/cfg. Returns TLCResult."""
    check_copies()
    tag = tag or module
    meta = os.path.join(WORK, 'tlc-meta', tag + '-' + str(os.getpid()))
    shutil.rmtree(meta, ignore_errors=True)
    os.makedirs(meta, exist_ok=True)
    cmd = _java(heap)
    cmd.insert(1, '-Djava.io.tmpdir=' + meta)      # TLC's scratch directories go where they are removed afterwards, not to /tmp
    if dfs:
        cmd.insert(1, '-Dtlc2.tool.queue.IStateQueue=StateDeque')
    cmd += ['tlc2.TLC', '-workers', str(workers), '-metadir', meta, '-noGenerateSpecTE']
    if coverage:
        cmd += ['-coverage', '1']
    cmd += list(extra) + ['-config', cfg, module + '.tla']
    e = dict(os.environ)
    e.pop('JAVA_TOOL_OPTIONS', None)
    if env:
        e.update({k: str(v) for k, v in env.items()})
    r = TLCResult()
    r.cmd = ' '.join(cmd)
    t0 = time.time()
    try:
        p = subprocess.run(cmd, cwd=module_dir, env=e, stdout=subprocess.PIPE, stderr=subprocess.STDOUT,
                           timeout=timeout, text=True, errors='replace')
        r.out, r.rc = p.stdout, p.returncode
    except subprocess.TimeoutExpired as ex:
        r.out = (ex.stdout or b'').decode('utf-8', 'replace') if isinstance(ex.stdout, bytes) else (ex.stdout or '')
        r.rc = -9
        r.errors.append('timeout after %ss' % timeout)
    finally:
        shutil.rmtree(meta, ignore_errors=True)
    r.wall = time.time() - t0
    parse(r)
    return r


def parse(r):
    for line in r.out.splitlines():
        m = _STATS.search(line)
        if m:
            r.generated, r.distinct = int(m.group(1)), int(m.group(2))
            continue
        m = _DEPTH.search(line)
        if m:
            r.depth = int(m.group(1))
            continue
        m = _INV.search(line)
        if m:
            r.violated.append(m.group(1))
            continue
        m = _PROP.search(line)
        if m:
            r.violated.append(m.group(1) or 'property')
            continue
        if 'No error has been found' in line:
            r.ok = True
            continue
        m = _FAIL.search(line)
        if m:
            r.fails.append((int(m.group(1)), m.group(2)))
            continue
        m = _NOTE.match(line)
        if m and m.group(1) != 'FAIL':
            r.notes.append((m.group(1), m.group(2)))
            continue
        m = _COV.match(line)
        if m:
            r.coverage[m.group(1)] = (int(m.group(3)), int(m.group(4)))
            continue
        if line.startswith('Error:') or 'Exception' in line and 'at ' not in line[:4]:
            r.errors.append(line.strip())
    return r


def check_machinery(r, what):
    """Raise MachineryError unless TLC ran to completion (with or without invariant violations)."""
    if r.rc == -9:
        raise MachineryError('%s: TLC timed out\n%s' % (what, r.out[-2000:]))
    bad = [e for e in r.errors if not e.startswith('Error: Invariant') and 'is violated' not in e
           and 'behavior up to this point' not in e.lower() and 'The behavior up to' not in e]
    if r.generated == 0 or (not r.ok and not r.violated and bad):
        raise MachineryError('%s: TLC failed\n%s' % (what, r.out[-4000:]))


def model_check(subdir, module, cfg, *, env=None, workers=16, timeout=3600, coverage=True, extra=(),
                heap='8g'):
    d = os.path.join(SPEC, subdir)
    r = run(d, module, cfg, env=env, workers=workers, timeout=timeout, coverage=coverage, extra=extra,
            tag=module + '-' + cfg.replace('.cfg', ''), heap=heap)
    check_machinery(r, '%s/%s' % (module, cfg))
    return r


def judge(subdir, module, cfg, cases, *, casefile, env=None, workers=16, timeout=3600, heap='12g'):
    """Pattern B. cases: list of JSON-able dicts. Returns (TLCResult, fails[(index0, clause)])."""
    d = os.path.join(SPEC, subdir)
    os.makedirs(os.path.dirname(casefile), exist_ok=True)
    with open(casefile, 'w') as f:
        json.dump(cases, f, separators=(',', ':'))
    e = {'CASES': casefile}
    if env:
        e.update(env)
    r = run(d, module, cfg, env=e, workers=workers, timeout=timeout, tag=module + '-judge', heap=heap)
    check_machinery(r, '%s judge' % module)
    if r.distinct != 2 * len(cases):
        raise MachineryError('%s judge: expected %d states, TLC found %d\n%s'
                             % (module, 2 * len(cases), r.distinct, r.out[-3000:]))
    fails = sorted(set((tid - 1, clause) for tid, clause in r.fails))
    return r, fails


def sany(subdir, module):
    d = os.path.join(SPEC, subdir)
    p = subprocess.run(_java('1g') + ['tla2sany.SANY', module + '.tla'], cwd=d, stdout=subprocess.PIPE,
                       stderr=subprocess.STDOUT, text=True)
    return p.returncode == 0 and 'Semantic errors' not in p.stdout and 'rror' not in p.stdout, p.stdout


def simulate(subdir, module, cfg, outdir, *, num=100, depth=20, seed=0, env=None, timeout=600):
    """Pattern C: write one TLA+ trace file per behaviour to outdir; returns list of parsed traces.
    Each trace is a list of (action_name, [args], {var: tla_value_text})."""
    d = os.path.join(SPEC, subdir)
    shutil.rmtree(outdir, ignore_errors=True)
    os.makedirs(outdir, exist_ok=True)
    extra = ['-simulate', 'file=%s/tr,num=%d' % (outdir, num), '-depth', str(depth), '-seed', str(seed)]
    r = run(d, module, cfg, env=env, workers=1, timeout=timeout, extra=extra, tag=module + '-sim')
    traces = []
    for fn in sorted(os.listdir(outdir)):
        traces.append(parse_sim_file(os.path.join(outdir, fn)))
    return r, traces


_ACT = re.compile(r'^\\\* <(\w+)(?:\((.*)\))? line')
_STATE = re.compile(r'^STATE_(\d+) ==')


def parse_sim_file(path):
    steps = []
    cur_act, cur_args, buf = None, [], []
    with open(path) as f:
        lines = f.read().splitlines()
    i = 0
    pending = ('Init', [])
    while i < len(lines):
        line = lines[i]
        m = _ACT.match(line)
        if m:
            pending = (m.group(1), split_top(m.group(2)) if m.group(2) else [])
            i += 1
            continue
        m = _STATE.match(line)
        if m:
            body = []
            i += 1
            while i < len(lines) and lines[i].strip() != '' and not lines[i].startswith('\\*'):
                body.append(lines[i])
                i += 1
            steps.append((pending[0], pending[1], parse_state('\n'.join(body))))
            continue
        i += 1
    return steps


def split_top(s, sep=','):
    out, depth, cur, inq = [], 0, '', False
    for ch in s:
        if inq:
            cur += ch
            if ch == '"':
                inq = False
            continue
        if ch == '"':
            inq = True
            cur += ch
        elif ch in '<([{':
            depth += 1
            cur += ch
        elif ch in '>)]}':
            depth -= 1
            cur += ch
        elif ch == sep and depth == 0:
            out.append(cur.strip())
            cur = ''
        else:
            cur += ch
    if cur.strip():
        out.append(cur.strip())
    return out


def parse_state(text):
    """'/\\ a = 1\n/\\ b = <<1,2>>' -> {'a': 1, 'b': [1, 2]}"""
    st = {}
    parts = re.split(r'^\s*/\\ ', text, flags=re.M)
    for p in parts:
        p = p.strip()
        if not p:
            continue
        name, _, val = p.partition(' = ')
        st[name.strip()] = tla_value(' '.join(val.split()))
    return st


def tla_value(s):
    """Parse a TLC-printed value into python (ints, strings, tuples->list, sets->frozenset-as-sorted-list
    tagged, records/functions->dict)."""
    v, rest = _val(s.strip())
    return v


def _skip(s):
    return s.lstrip()


def _val(s):
    s = _skip(s)
    if s.startswith('<<'):
        s = s[2:]
        items = []
        s = _skip(s)
        if s.startswith('>>'):
            return items, s[2:]
        while True:
            v, s = _val(s)
            items.append(v)
            s = _skip(s)
            if s.startswith(','):
                s = s[1:]
                continue
            if s.startswith('>>'):
                return items, s[2:]
            raise ValueError('bad tuple: ' + s[:40])
    if s.startswith('{'):
        s = _skip(s[1:])
        items = []
        if s.startswith('}'):
            return {'__set__': items}, s[1:]
        while True:
            v, s = _val(s)
            items.append(v)
            s = _skip(s)
            if s.startswith(','):
                s = s[1:]
                continue
            if s.startswith('}'):
                return {'__set__': items}, s[1:]
            raise ValueError('bad set: ' + s[:40])
    if s.startswith('['):
        s = _skip(s[1:])
        d = {}
        while True:
            m = re.match(r'(\w+) \|-> ', s)
            if not m:
                raise ValueError('bad record: ' + s[:40])
            s = s[m.end():]
            v, s = _val(s)
            d[m.group(1)] = v
            s = _skip(s)
            if s.startswith(','):
                s = _skip(s[1:])
                continue
            if s.startswith(']'):
                return d, s[1:]
            raise ValueError('bad record: ' + s[:40])
    if s.startswith('('):
        # function printed as (k :> v @@ k :> v)
        s = _skip(s[1:])
        d = {}
        while True:
            k, s = _val(s)
            s = _skip(s)
            assert s.startswith(':>'), s[:40]
            v, s = _val(s[2:])
            d[k if not isinstance(k, list) else tuple(k)] = v
            s = _skip(s)
            if s.startswith('@@'):
                s = s[2:]
                continue
            if s.startswith(')'):
                return d, s[1:]
            raise ValueError('bad function: ' + s[:40])
    if s.startswith('"'):
        m = re.match(r'"((?:[^"\\]|\\.)*)"', s)
        return m.group(1), s[m.end():]
    m = re.match(r'-?\d+', s)
    if m:
        return int(m.group(0)), s[m.end():]
    m = re.match(r'(TRUE|FALSE)', s)
    if m:
        return m.group(1) == 'TRUE', s[m.end():]
    m = re.match(r'\w+', s)
    if m:
        return m.group(0), s[m.end():]
    raise ValueError('bad value: ' + s[:40])
