"""known_findings.json matching: a violation whose key is listed as an open finding prints
KNOWN-FINDING and does not fail the check; 'fixed' entries suppress nothing. Never written at run time."""
import json
import os

from .common import VERIF

_PATH = os.path.join(VERIF, 'known_findings.json')


def load(pid):
    if not os.path.isfile(_PATH):
        return {}
    with open(_PATH) as f:
        data = json.load(f)
    return {e['key']: e for e in data.get('findings', []) if e['property'] == pid and e.get('status', 'open') == 'open'}
