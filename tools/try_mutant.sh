#!/bin/sh
# usage: try_mutant.sh <patch.diff> <check id> [more check ids...]  -- apply to /repo, run quick checks, always revert
p="$1"; shift
git -C /repo apply "$p" || exit 2
for id in "$@"; do
  echo "== $id on mutant $p"
  /verif/check "$id" 2>&1 | grep -E "^(OK|VIOLATION|KNOWN|MACHINERY|  )" | head -8
done
git -C /repo checkout -- . 
git -C /repo status --short | grep -v egg-info
