#!/bin/bash
# usage: try_mutant.sh <patch.diff> <check id> [more ids...] [-- extra check args]
# Runs the quick checks against a scratch worktree of /repo HEAD with the patch applied (VERIF_REPO points the
# harness at it), so /repo itself is never touched and several people can do this at the same time.
# (The lead additionally confirms every seed with the literal procedure: git -C /repo apply; ./check; git checkout.)
p="$(readlink -f "$1")"; shift
wt=$(mktemp -d /tmp/mutwt.XXXXXX); rmdir "$wt"
git -C /repo worktree add --detach "$wt" HEAD >/dev/null 2>&1 || { echo "cannot create worktree"; exit 2; }
trap 'git -C /repo worktree remove --force "$wt" >/dev/null 2>&1; rm -rf "$wt" "/verif/.work/alt-$(basename $wt)"' EXIT
git -C "$wt" apply "$p" || { echo "patch does not apply"; exit 2; }
rc=0
for id in "$@"; do
  echo "== $id on mutant $p"
  VERIF_REPO="$wt" VERIF_EVIDENCE_DIR="$wt/.evidence" /verif/check "$id" 2>&1 | grep -E "^(OK|VIOLATION|KNOWN|MACHINERY|  )" | cut -c1-400 | head -12
done
