#!/bin/bash
# usage: tools/selftest.sh [seed ids...]   (default: every directory under seeded/)
# Mutation self-test: every stored seeded change is applied to a scratch worktree of /repo HEAD (never to /repo itself)
# and the quick check of its property is run against it; a seeded change that is not reported as a VIOLATION is a gap.
# Takes about a minute per seed; results go to stdout and, with tools/record_detect.py, into seeded/<id>/meta.json.
cd "$(dirname "$0")/.."
ids=("$@")
[ ${#ids[@]} -eq 0 ] && ids=($(ls seeded))
log=.work/selftest.log
mkdir -p .work; : > $log
missed=0
for sid in "${ids[@]}"; do
  [ -f seeded/$sid/patch.diff ] || continue
  pid=${sid%%-*}
  echo "##### $sid" >> $log
  tools/try_mutant.sh seeded/$sid/patch.diff $pid >> $log 2>&1
  if awk -v s="##### $sid" '$0==s{f=1;next} /^#####/{f=0} f' $log | grep -q '^VIOLATION'; then
    echo "$sid caught by $pid"
  else
    echo "$sid MISSED by $pid"; missed=$((missed+1))
  fi
done
echo "missed: $missed"
[ $missed -eq 0 ]
