#!/usr/bin/env python3
"""Regenerate /verif/MANIFEST.json from the table below (single source of truth)."""
import json
import os
import sys

VERIF = os.path.dirname(os.path.dirname(os.path.abspath(__file__)))

# id -> (category, technique, level text, level note, design ref)
CHECKS = {
 'C05': ('model_checking',
         'TLA+ Z80 step specification; TLC judges recorded single steps of all four simulators (trace validation) + TLC-enumerated ALU tables looked up in the implementation tables',
         'Every opcode slot (1792) is executed from boundary-biased random states on the Python and C, plain and contended simulators; TLC evaluates Z80!Step on each recorded pre-state and compares registers, documented flags, memory diff, port events, PC, R and T. Flag tables are enumerated completely inside TLC.',
         'Trusts Z80.tla as a faithful transcription of the Zilog manual and "Undocumented Z80 Documented"; undocumented flag bits without agreement are masked (Eff.mask). Operand values are sampled, not exhaustive, except for the 8-bit flag tables.',
         'DESIGN.md §4 C05'),
 'C07': ('model_checking',
         'TLA+ decode specification (Z80Asm!Text/Length, Z80!Decode timing); TLC judges the answers of every table-driven decoder for all 1792 opcode slots',
         'All 1792 opcode slots x operand bytes x Opcodes option sets x addresses are put to Disassembler, traceutils.disassemble, opcodes.decode and z80.get_timing; TLC compares length, text and timing set with the algorithmic decode of the specification; simulator PC/T deltas are judged against the same specification.',
         'Operand bytes are sampled; slot space is complete; every slot is also placed so that its last byte is address 65535. Instructions that continue past 65535 into address 0 are not in the generator.',
         'DESIGN.md §4 C07'),
 'C06': ('model_checking',
         'TLA+ machine specification (Z80!StepInt); TLC validates lock-step traces of both implementation pairs recorded through trace.py\'s own loops, step by step',
         'Generated programs run one instruction at a time on Simulator+CSimulator and CMIOSimulator+CCMIOSimulator via the real trace loops (Python loop / CSimulator.trace) with interrupts; TLC replays each trace against Z80!StepInt (instruction + frame interrupt) and requires bit-identical registers, memory diffs and port logs inside each pair; one-call vs per-instruction execution of the loop must coincide; LDIR/LDDR/DJNZ programs (copies onto the instruction itself included) run as one run(start, stop) call on Simulator with fast_djnz/fast_ldir, plain Simulator and CSimulator are judged by FastRun.tla (Z80!Step iterated to the stop address).',
         'Programs are sampled (random + structured + 0xFFFF/frame-boundary edge programs; 128K programs with 0x7FFD histories judged by Machine128 = Z80 step + paging latch over physical pages); the timing of the contended pair is predicted too (uncontended duration + Z80Bus!ContendedDelay on the 48K / 128K layout, both readings of the OTIR/OTDR internal-cycle address); memory/port-log equality inside a pair is computed by the harness and passed to TLC as a flag; 128K runs that page bank 2/5 in at 0xC000 are judged for pair agreement, latch, ranges and ROM immutability only.',
         'DESIGN.md §4 C06'),
 'C08': ('model_checking',
         'TLA+ Paging128 specification model-checked (lock, ROM, one-bank-per-write as invariants/action properties) + every recorded paging step of the real simulators validated as a Paging128 action by TLC',
         'Exhaustive model check of the paging state machine; every (o7ffd state x port class x value) edge and random histories are driven through real OUT (C),r / OUT (n),A / OUTI / OUTD / OTIR / OTDR and LD (nn),A instructions on the four simulators (128K Memory + trace.Tracer) and through skoolutils.Memory; TLC validates each recorded step (o7ffd, tracer copy, CPU-visible and Python-visible page ids, one cell per physical page) as the corresponding spec action; register ranges, ROM immutability and T monotonicity are evaluated on single steps of all 1792 opcode slots (48K and locked 128K memory, where a store into a page that is not mapped in is visible) and on every slot followed by an accepted frame interrupt with SP at the ROM/RAM/64K edges (real trace loops of all four simulators).',
         'Quick tier samples 6 of 69 values per edge; thorough uses all 256. One data cell per physical page stands for the bank contents. skoolutils.Memory is also driven through copy() before every action with identical bank contents (pages identified by identity). LDIR/LDDR/DJNZ loops run as one run(start, stop) call with fast_ldir/fast_djnz (copies crossing 0xFFFF and descending into the ROM) are judged for ROM writes and register ranges by FastRun.tla.',
         'DESIGN.md §4 C08'),
 'C19': ('model_checking',
         'TLA+ ULA/bus-cycle specification (Z80Bus: Delay48/128, per-instruction machine cycles, I/O patterns); TLC judges recorded single steps of the contended simulators at chosen frame positions',
         'Every opcode slot is executed on the plain Python simulator and both contended simulators with PC, pointer, stack, IR and port addresses placed in contended / uncontended / ROM memory at frame positions covering all phases around both ends of the contended window; TLC computes the instruction\'s machine-cycle list and the documented wait pattern and requires dT = uncontended timing + delay, never faster than plain, and register/flag/memory/port effects equal to the plain simulator (MEMPTR-derived bits aside).',
         'Frame positions and placements are sampled per slot plus a deterministic sweep at both edges of the contention window, on the 48K layout and on the 128K layout with odd and even banks at 0xC000 (paging locked during the step); both wait-state tables are enumerated for every frame position (Python lists and delays observed on the Python and C simulators); the OTIR/OTDR internal-cycle address is accepted in both readings (DontCare OtirInternalBC).',
         'DESIGN.md §4 C19'),
 'C01': ('model_checking',
         'TLA+ Tiling specification (model-checked) + TLC judging of recorded sna2skool -> skool2bin pipelines against the original memory image',
         'Generated memory images, ranges, control files (all block/sub-block types, sublength lists with bases, multipliers, string/byte mixes, L loops, mid-range i blocks) and option vectors (-H -l -w -r, DefbSize/DefmSize/DefwSize, Opcodes, Wrap ...) are run through the real sna2skool.main and skool2bin.main; TLC checks statement order/coverage and that every non-ignored original byte is reproduced at its address.',
         'Control files are generated by harness/drivers/ctlgen.py with boundaries placed by a Python port of Z80Asm!Length; base m is not used where a negative operand is not meaningful (DEFS size, RST, IN/OUT port); an ignored block in the middle of the range is followed by an @org directive (a hand-written control file needs one there); with -r the boundaries respect the argument byte of RST 8.',
         'DESIGN.md §4 C01'),
 'C02': ('model_checking',
         'TLA+ specifications of the instruction templates/operands (Z80Asm) and of the operand-literal grammar (AsmLit); TLC judges disassemble->assemble and assemble->disassemble->assemble round trips of the real Assembler/Disassembler',
         'Every opcode slot x special operand bytes x addresses (incl. the 64K boundary) x base indicators x case x default base x Opcodes sets is disassembled and reassembled; TLC requires identical bytes, the specification\'s template, and that every numeric literal - parsed by the AsmLit grammar - denotes the operand value decoded by the specification. DEFB/DEFM/DEFW/DEFS ranges with sublength lists and generated operand spellings (hex/bin/char/expressions/whitespace/case, edge displacements and jump offsets) are round-tripped.',
         'Operand bytes and spellings are sampled (slot space complete); literals are located in the text by a tokenizer in the harness (trusted); base m excluded for RST, IN A,(n), OUT (n),A and DEFS sizes where a signed operand is not meaningful.',
         'DESIGN.md §4 C02'),
 'C14': ('model_checking',
         'TLA+ CtlGen specification of the directive-map algorithm (FindTerminal transcribed) model-checked for the tiling invariant; TLC judges recorded calls of the real _find_terminal_instruction and the control files sna2ctl writes (order, terminator, code map inside code blocks, sna2skool/skool2bin consequences)',
         'Exhaustive model check over all abstract images of 5 addresses (instruction lengths 1-3, END flags, code sets); the real _find_terminal_instruction is bound to the specification operator on random abstract images; real sna2ctl.main runs on image classes (incl. structured multi-routine programs with untaken calls and indirect jumps, ranges ending mid-instruction) with code maps in five formats built from real simulator traces, plus every opcode slot (1792) once in straight-line images with a straight-line code map and -C; then sna2skool and skool2bin on its output.',
         'Termination is bounded liveness (20 s CPU cap per run). Deterministic sweeps: every opcode slot with a straight-line code map; 49 instruction patterns cut at every byte by the top of memory or by -e; RST programs with inline arguments traced by the real simulator (with/without -r, -m, RSTHandlerConfig). Arbitrary (non-trace) address sets are judged for termination/tiling/map-in-code only. An overlap warning caused by a code-map instruction that straddles the requested END is inherent in the input and not counted.',
         'DESIGN.md §4 C14'),
 'C10': ('model_checking',
         'TLA+ SaveResume specification (two copies of the Z80!StepInt machine, SaveLoad at any boundary) model-checked for transparency; TLC judges real trace.py runs: n1+n2 instructions at once vs n1, snapshot, n2',
         'The save/resume bisimulation (CPU + the I/O devices trace.py keeps: border, 0x7FFD latch with lock, AY select and registers with read-back) is model-checked on a scaled frame with HALT waits, EI, prefix chains, repeating block instructions, IM 2 and an AY/paging/border program for every save point, with a negative configuration that must fail (AY state lost by a 48K snapshot); generated programs in generated start snapshots (48K/128K, T anywhere incl. frame end and just below 2^24) are run by the real trace.main for sampled split points x {szx,z80} x {plain,-c} x {C,--python} and the final states compared under Obs (registers, interrupt state, border, frame position, paging, AY, all RAM; MEMPTR for SZX).',
         'Split points and programs are sampled. Final snapshots are projected with skoolkit\'s own reader (validated by C09). For Z80 + contention the MEMPTR-derived F bits 5,3 are excepted together with MEMPTR.',
         'DESIGN.md §4 C10'),
 'C12': ('model_checking',
         'TLA+ Loader specification (LD-BYTES stack protocol, Prefill rule) model-checked; TLC executes the tape\'s machine-code loader with the Z80 specification and judges real bin2tap -> tap2sna round trips',
         'Exhaustive model check of the loader/stack protocol for all placements of ORG/length/STACK in a window; for every generated configuration (sizes 1..41000, ORG from 0x4000 up, run-length-sensitive contents, STACK below / overlapping each pre-filled byte / inside / above the data, CLEAR, screen, tap/pzx, 128K banks/--7ffd/--loader, with --start and - 48K - without it) TLC checks the main block on the tape against Prefill, runs the loader bytes found on the tape through Z80!Step up to the LD-BYTES entry contract, and judges the snapshot tap2sna produced (PC, SP, memory outside the 14 scratch bytes, banks, 7ffd).',
         'ROM LD-BYTES is an abstract contract in the model; the end-to-end part runs the real ROM in the real simulator. Loads use the default simulated-LOAD configuration here (C13 varies it).',
         'DESIGN.md §4 C12'),
 'C18': ('model_checking',
         'TLA+ Wrap specification (greedy placement state machine model-checked for order/width/rows) + TLC judging of the projected output of skool2asm, skool2html and sna2skool for generated unique-token documents',
         'Generated skool/ctl documents with unique word tokens (all sections, groups of 1..6 instructions, braces in every allowed position, #TABLE/#LIST blocks in descriptions, block comments, register descriptions and instruction comments with widths swept around the width available at that place, line widths 40..200 with systematic end-of-line sweeps) go through the real skool2asm.main, skool2html.main and sna2skool.main; TLC checks words in order exactly once at the right instruction/entry, every instruction once with address and operation, and the width rule with its unbreakable-word exception and warning.',
         'HTML is tokenised with html.parser (trusted). Wrap points different from the greedy model are drift; a :w table that is not narrowed below the documented table width to fit a narrower place is drift (it is warned about). Mixed CR/LF terminators are outside the property (drift).',
         'DESIGN.md §4 C18'),
 'C09': ('model_checking',
         'TLA+ specifications of the Z80 RLE codec (Z80Rle: SpecDecode from the format text, encoder state machine), of the header/chunk field maps (SnapFields) and of bin2sna/snapmod options as a state machine with frame conditions (SnapOps), model-checked; TLC enumerates the RLE string space and looks up the real encoder/decoder, judges whole files written by the real writers, and validates every recorded bin2sna/snapmod step as a SnapOps action',
         'RLE: every string over {ED,00,01} up to length 9 (10 thorough) x both block forms through the real encoder and every well-formed block over {ED,00,01,02,05} up to length 7 through the real and an independent decoder, enumerated by TLC; long runs through real files; generated machine states x {48K,128K,+2} x three writer routes written as .z80 and .szx and read back by skoolkit and by an independent decoder, header bytes decoded by TLC; random bin2sna/snapmod option sequences (--reg/--state/--poke/--move/--patch incl. bank prefixes and 16K boundaries, plus all 64 source/destination bank pairs of a paged --move with explicit prefixes) validated step by step with the full state diff.',
         'zlib and CRC-32 are trusted projections; byte-by-byte comparison of decoded 16K banks is done in Python and given to TLC as an equality fact with the first differing offset; registers the caller does not name have no documented default and are not compared across formats.',
         'DESIGN.md §4 C09'),
 'C15': ('model_checking',
         'TLA+ Png specification (chunk-order automaton with APNG sequence numbers, Pixel(img,x,y) with scale/crop/mask/flip/rotate/flash rules) model-checked for its algebraic sanity; TLC judges the chunk list and every pixel of every frame of PNG files written by the real ImageWriter, the image macros via skool2html, and sna2img',
         'Tile arrays x all 256 attributes x data/mask patterns x scale x crop classes (aligned, 1..7 px off each side, 1-px, oversize) x mask 0..2 x flip x rotate x tindex/alpha x animation x multi-frame sequences, rendered by ImageWriter.write_image (every specialised encoder and the same frames forced through the generic one), by #UDG/#UDGARRAY/#FONT/#SCR/#FRAMES via skool2html.main and by sna2img.main; TLC checks chunk sequence/CRC facts/APNG numbering and pixel-exactness against Pixel().',
         'CRC-32, inflate, unfiltering and index unpacking are done by the harness reader (zlib, trusted); default [Colours]; flip is applied before rotate (documentation silent on the order).',
         'DESIGN.md §4 C15'),
 'C16': ('model_checking',
         'TLA+ Site specification (files, element ids, links; WriteFile/CopyResource actions; NoDangling, FragmentExists, WrittenOnce, EntryAnchorsUnique, expected file set) model-checked on small abstract sites; every real skool2html run is recorded as a trace of file writes/copies and replayed by TLC as Site actions with the invariants evaluated on the recorded tree',
         'Random abstract sites (2-8 entries of every type, 0-2 other-code disassemblies, operands that do/do not address instructions, #R/#LINK/image/audio macros, [Paths] at different depths, AddressAnchor/CodeFiles formats, LinkOperands/LinkInternalOperands, -1 -a -C -D/-H -l/-u -o -O -j -T and -w subsets in one or two runs) rendered to skool+ref files and run through the real skool2html.main; FileInfo-level writes are logged from outside and the output tree tokenised.',
         'html.parser tokenisation and URL splitting are trusted projections; a link into a class of files deselected with -w is excused; more anchors for one address than documented is a violation, fewer (>=1) is drift.',
         'DESIGN.md §4 C16'),
 'C17': ('model_checking',
         'TLA+ Macro specification (term AST, integer expression semantics, environment of variables/memory/snapshot stack as a state machine; Expand) model-checked for #PUSHS/#POPS/#POKES/#LET/#FOR histories; TLC evaluates Macro!Expand on every generated term tree and compares with what the real skool2asm and skool2html printed at six places of a skool file',
         'Random term trees (macro nesting <= 4: #EVAL #N #IF #MAP #FOR #FOREACH #WHILE #LET #FORMAT #DEF #PEEK #POKES #PUSHS #POPS #CHR #STR #SPACE #PC, all arithmetic operators) preceded by state-changing preambles, rendered in randomly chosen documented concrete syntaxes (bare/parenthesised/keyword integers, every delimiter family, pre-expansion, hex/decimal, whitespace), planted in title, description, register, mid-block, instruction, multi-instruction and end (after a multi-instruction group) comments x 9 base/case option sets; ASM = HTML = every place = model.',
         'html.unescape is trusted; inputs stay in the documented domain (no division by zero, no negative shifts, integer-only format fields); operand values within +-2^20 because TLC integers are 32-bit; image/link macros are C15/C16.',
         'DESIGN.md §4 C17'),
 'C13': ('model_checking',
         'TLA+ TapePlayer specification (tape deck: edges, EAR level, pause/next block, announce; accelerators as closed forms over Z80!Step) with the deck model-checked; TLC decides with the executable Z80 step spec that every ACCELERATORS entry and both DEC A closed forms refine plain execution, validates recorded LoadTracer / CSimulator.load port-read scenarios against the plain spec run, and judges tap2sna snapshots across the speed-up configuration matrix',
         'Refinement obligations enumerated by TLC over all 53 accelerator table entries x counter values (16 quick / all 256 thorough) x iteration counts and edge phases, DEC A: JR/JP x carry x A; real _read_port / CSimulator.load scenarios (near/limit/level/late/iff/block-end) compared with k plain spec steps on all registers incl. R and T, memory and player state; real tap2sna.main on bin2tap tapes (tap/pzx, 48K/128K) and custom-loader TZX tapes (relocated LD-BYTES with altered timing constants, turbo and headerless blocks, one per usable loop shape) under accelerator x accelerate-dec-a x pause x fast-load x cmio x python x polarity x first-edge (pairwise in quick, full product on small tapes in thorough): bit-identical inside the speed-up group, data bytes/PC/SP across fast-load and cmio.',
         'End to end is a sampled tape x configuration matrix; T is read through a wrapper around tap2sna.get_state (tap2sna writes a default T into the file); RAM compared as CRC-32 per 256-byte page; loads always pass --start (the PC reached is only defined with a stop address); pulses shorter than one sampling-loop period and zero-gap blocks are open known findings and excluded from the random generators.',
         'DESIGN.md §4 C13'),
 'C04': ('model_checking',
         'TLA+ SubFix specification (reader state machine of the documented @*sub/@*fix, block, @org/@label/@keep/@bytes/@defb/@defs/@defw/@if semantics yielding layout, label table and images) model-checked on all small files; TLC-enumerated and TLC-simulated files plus a Python all-forms generator are rendered and run through the real skool2bin, skool2asm (output assembled by a reference resolver) and skool2html, and TLC judges ASM = bin = model and #PEEK = bin per mode and option vector',
         'All 601 TLC-enumerated files with 0-2 directives of every flag combination (> | + / !, with/without label and instruction) on one instruction x modes; 130 (quick) / 1000 (thorough) TLC-simulated files x 12 skool2bin / 9 skool2asm modes x 6 / 18 base/case/-c option vectors; random all-instruction-form files (expressions, binary and character literals, all bases, address-valued operands, @label/@keep/@nowarn/@equ) x 4 modes x 18 vectors; #PEEK in ASM and HTML output against skool2bin --data.',
         'Single instructions of the skool2asm output are encoded by skoolkit\'s own Assembler (trusted via C02) inside a reference resolver for ORG/EQU/labels, but operands of the unambiguous sub-language (decimal/hex/binary numbers and character constants joined by + - *) are evaluated by the harness and passed on as decimal numbers; cases where the documentation leaves the tools free (an @org that is not first in an entry, operands naming an unlabelled instruction that moved, | after an unplaced instruction ...) are counted, not judged; three documented usages fail the #PEEK clause and are open findings.',
         'DESIGN.md §4 C04'),
 'C03': ('model_checking',
         'TLA+ state machine of the annotated disassembly document (CtlDoc, well-formedness model-checked) generates documents by TLC -simulate and an exhaustive small-scope -dump; each is round-tripped through the real sna2skool/skool2ctl, and TLC (CtlDocCases) projects skool A, ctl1 and skool B to items and decides item equality, A==B and the ctl2==ctl1 fixed point',
         'Generated documents (all entry and sub-block types, statement lengths and bases, title/D/R/N/E paragraphs, instruction comments incl. blank, dots-only, braces and dot+colon lines, M groups, every ASM directive kind, @ignoreua t/d/r/m/i/e, > header/footer) x sna2skool -H/-l/-w x skool2ctl -b [-k] [-h|-l] x with/without -e, plus every document of one b/c entry with up to three one-statement sub-blocks and one instruction/M/N comment (1912 quick / 3592 thorough, enumerated by TLC); TLC judges DocOfSkool(A)=DocOfCtl(ctl1)=DocOfSkool(B), textual A=B and ctl2=ctl1, naming the first lost, added or changed item.',
         'Not generated: L loops, the M repeat flag, ASM block directives inside non-entry blocks, statements inside i blocks, #TABLE/#LIST; brace order restricted to every { before every } (the opposite order is an open C18 finding); without -k only documents without dot/colon lines are claimed to round-trip textually; line lexing is done in the harness; memory is synthesised from the document so that every requested base is renderable.',
         'DESIGN.md §4 C03'),
 'C20': ('model_checking',
         'TLA+ RZX protocol specification (recorder + player over Z80!Step, stop/write/resume at every frame) model-checked; TLC judges real rzxplay/rzxinfo runs on recordings made by an independent recorder, and validates --trace output step by step against the player\'s counters',
         'Rzx is model-checked for no desync, boundary and final agreement and stop-file faithfulness over programs x frame plans x conventions x flags x every stop point. Generated programs (IN loops, HALT, EI/DI, IM 1/2, 48K and 128K paging through partially decoded ports, AY) recorded on the real simulators into 1-3-block RZX files ({z80 v1/v3, szx} snapshots, compressed or not) are played by rzxplay.main under {C,--python} x {plain,--cmio} x flags 0..7, stopped at every frame, written and resumed, reported by rzxinfo --frames, and judged by TLC against the recorder\'s states and frames.',
         'Programs and frame plans are sampled; claims are made only where the flags match the recording convention (the rest is counted as drift); T-states are not compared; rzxinfo is checked for the <=10 readings it prints; zlib and the C09 snapshot decoder are trusted projections; self-modifying recordings whose instruction class changes get no claim.',
         'DESIGN.md §4 C20'),
 'C11': ('model_checking',
         'TLA+ Tape specification (generator state machine) model-checked against the declarative TapeSignal specification (played signal = specified signal, edges monotone, data ranges and bits decoded from the edges) on every tape of bounded alphabets; every one of those tapes and random larger ones are replayed into the real get_edges and judged by TLC; TapeFormats (TAP/TZX/PZX byte layouts) is applied by TLC to the raw bytes of files and compared with the real parsers, writers and tapinfo',
         'Every tape of the bounded models (alphabets of pulse/tone/data/pause blocks incl. zero widths, used bits 1..8, tails, pauses, polarity bits) x first-edge x polarity replayed into get_edges, plus random TZX-/PZX-expressible tapes of up to 6 blocks with widths up to 65535; files written by the real write_tap/write_pzx (lengths 0..65535, every flag class) and by independent TZX/PZX byte writers: one tape as TAP / TZX 0x10 / 0x11 / 0x12+0x13+0x14 / PZX must give one edge list; TZX signal blocks incl. 0x15 and 0x20 with group/loop/info blocks interleaved; every PZX PULS word form; truncated files; --tape-start/stop/skip; tapinfo block lists.',
         'tapinfo output is projected by regular expressions to (block number, id, length); files over 12000 edges or with edge times >= 2^31 are judged for parsing/round trip only; a TAP/TZX 0x10 block with flag byte 1..127 played with the short pilot is drift; TZX 0x16-0x19 CSW/generalized blocks (documented as unsupported) are not generated; zero-length pulses at the ends of sample-mode data are open findings.',
         'DESIGN.md §4 C11'),
}

PENDING = {}


def main():
    props = [json.loads(l) for l in open(os.path.join(VERIF, 'properties.jsonl'))]
    checks = []
    na = []
    for p in props:
        pid = p['id']
        if pid in CHECKS:
            cat, tech, text, note, ref = CHECKS[pid]
            checks.append({
                'property_id': pid,
                'quick_cmd': './check %s --tier quick' % pid,
                'thorough_cmd': './check %s --tier thorough' % pid,
                'evidence_file': 'evidence/%s.json' % pid,
                'replay_cmd_template': './check %s --replay {path}' % pid,
                'engine': 'tlc',
                'level_claimed': {'category': cat, 'text': text, 'design_ref': ref},
                'level_note': note,
                'technique': tech,
            })
        else:
            na.append({'property_id': pid, 'reason': PENDING.get(pid, 'check not built yet in this round (planned: DESIGN.md §4 %s); not claimed until it runs' % pid)})
    man = {
        'version': 1,
        'setup_cmd': 'mkdir -p .work evidence replays && /venv/bin/python -c "import sys; sys.path.insert(0, \'/verif\'); from harness.lib import cbuild; cbuild.build()"',
        'hooks': {
            'guard': 'SKOOLKIT_VERIF',
            'enable': './check sets SKOOLKIT_VERIF=1 in its own process environment; sources are imported from /repo working tree and the C modules are rebuilt from /repo/c/csimulator.c on every run',
            'baseline_off_cmd': 'cd /repo && env -u SKOOLKIT_VERIF /venv/bin/python -m pytest -ra -q -p no:cacheprovider --timeout=900 --continue-on-collection-errors',
            'source_commits': [],
            'add_only': True,
        },
        'engines': [
            {'name': 'tlc', 'path': 'harness/lib/tlc.py', 'serves_properties': sorted(CHECKS),
             'kind_free_text': 'TLA+ specifications under spec/ checked with TLC 1.8 (model checking, batch trace validation, behaviour replay)'},
        ],
        'checks': checks,
        'not_applicable': na,
        'notes': 'All checks: ./check <ID> --tier quick|thorough. Exit 0 held / 1 VIOLATION / 2 machinery failure. See DESIGN.md.',
    }
    with open(os.path.join(VERIF, 'MANIFEST.json'), 'w') as f:
        json.dump(man, f, indent=1)
        f.write('\n')
    try:
        import jsonschema
        jsonschema.validate(man, json.load(open('/root/.vp/MANIFEST.schema.json')))
        print('MANIFEST.json valid; %d checks, %d not claimed' % (len(checks), len(na)))
    except ImportError:
        print('MANIFEST.json written (jsonschema not available for validation)')


if __name__ == '__main__':
    main()
