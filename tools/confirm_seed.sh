#!/bin/bash
# usage: confirm_seed.sh <ID> -- re-verify a sub-agent's mutation in its scratch worktree, store under /verif/seeded/<ID>, drop the worktree
id="$1"; wt=/tmp/mut/$id; out=$wt/out
set -u
[ -f $out/patch.diff ] || { echo "no patch for $id"; exit 2; }
cd $wt || exit 2
inc=$(/venv/bin/python -c "import sysconfig;print(sysconfig.get_paths()['include'])")
rebuild() { gcc -O2 -shared -fPIC -I$inc $wt/c/csimulator.c -o $wt/skoolkit/csimulator.cpython-312-x86_64-linux-gnu.so && gcc -O2 -shared -fPIC -DCONTENTION -I$inc $wt/c/csimulator.c -o $wt/skoolkit/ccmiosimulator.cpython-312-x86_64-linux-gnu.so; }
git checkout -q -- . 2>/dev/null; git apply out/patch.diff || { echo "patch does not apply to clean worktree"; exit 2; }
rebuild
t_mut=$(/venv/bin/python -m pytest -q -p no:cacheprovider -n 16 2>&1 | tail -1)
/venv/bin/python out/demo.py > $out/demo_mut.log 2>&1; rc_mut=$?
git apply -R out/patch.diff; rebuild
/venv/bin/python out/demo.py > $out/demo_clean.log 2>&1; rc_clean=$?
applies=no; git -C /repo apply --check $out/patch.diff 2>/dev/null && applies=yes
echo "$id tests_with_change: $t_mut | demo mutated rc=$rc_mut clean rc=$rc_clean | applies to /repo HEAD: $applies"
case "$t_mut" in *"14 failed, 4577 passed"*) ;; *) echo "REJECT: test suite differs"; exit 1;; esac
[ $rc_mut = 1 ] && [ $rc_clean = 0 ] && [ $applies = yes ] || { echo "REJECT"; exit 1; }
mkdir -p /verif/seeded/$id
cp $out/patch.diff $out/demo.py /verif/seeded/$id/
[ -f $out/notes.md ] && cp $out/notes.md /verif/seeded/$id/
python3 - "$id" "$t_mut" <<'P'
import json, sys
sid, tm = sys.argv[1], sys.argv[2]
pid = sid.split('-')[0]
prop = [json.loads(l) for l in open('/verif/properties.jsonl') if json.loads(l)['id'] == pid][0]
json.dump({'property': pid, 'title': prop['title'], 'source': 'independent sub-agent given only the property text and a scratch worktree',
           'needs_to_manifest': 'see notes.md', 'confirmed': {'pytest_with_change': tm, 'demo_with_change_exit': 1, 'demo_clean_exit': 0,
           'applies_to_repo_head': True, 'how': 'tools/confirm_seed.sh in the scratch worktree (C modules rebuilt for both states)'},
           'detected_by': []}, open('/verif/seeded/%s/meta.json' % sid, 'w'), indent=1)
P
cd /; git -C /repo worktree remove --force $wt && echo "stored /verif/seeded/$id, worktree removed"
