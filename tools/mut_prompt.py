#!/usr/bin/env python3
"""Print the brief given to an independent mutation sub-agent for one property.
The brief contains only the property's text and a scratch worktree path."""
import json, sys
pid = sys.argv[1]; wt = sys.argv[2]
avoid = sys.argv[3] if len(sys.argv) > 3 else ''
for l in open('/verif/properties.jsonl'):
    p = json.loads(l)
    if p['id'] == pid:
        break
print(f"""You are helping to evaluate a verification effort for the open-source Python project SkoolKit (skoolkid/skoolkit: toolkit for ZX Spectrum disassembly with a Z80 simulator, assembler/disassembler, skool-file parser and macro language, tape/snapshot codecs).

Your own scratch git worktree of the project is at {wt} (already created; its C extension modules are already built in-tree). Work ONLY inside {wt}. Never touch /repo or /verif, and do not read anything under /verif.

The project is meant to satisfy this semantic property:

  Title: {p['title']}
  Statement: {p['statement']}
  Scope (what it quantifies over): {p['quantifier']['text']}
  Code it is anchored in: {', '.join(p['anchors']['files'])}

Task: produce ONE realistic source change (a plausible regression a maintainer could introduce: an off-by-one, a wrong table entry, a dropped guard, a mis-ordered step, a refactor that loses a case, two cooperating edits that each look fine alone ...) to the project's source (skoolkit/*.py and/or c/csimulator.c, NOT the tests) that BREAKS the property above while
  (a) the code still imports/compiles, and
  (b) the project's existing test suite still passes exactly as before. Run it with:
        cd {wt} && /venv/bin/python -m pytest -q -p no:cacheprovider -n 16
      On the unmodified tree this gives "14 failed, 4577 passed" (the 14 failures are all in tests/csimulator_api_test.py and are expected; the set of failing tests must stay exactly the same with your change).
  (c) The breakage must need something SPECIFIC to manifest - an unusual input, a particular operand value / address / T-state / frame position, a multi-step sequence of operations, a particular option combination, or two cooperating sites - not something ordinary use would expose at once. Prefer subtle over blatant, but it must be a real violation of the property as stated (not merely a cosmetic change).

If you change c/csimulator.c, rebuild both extension modules in the worktree:
  inc=$(/venv/bin/python -c "import sysconfig;print(sysconfig.get_paths()['include'])")
  gcc -O2 -shared -fPIC -I$inc {wt}/c/csimulator.c -o {wt}/skoolkit/csimulator.cpython-312-x86_64-linux-gnu.so
  gcc -O2 -shared -fPIC -DCONTENTION -I$inc {wt}/c/csimulator.c -o {wt}/skoolkit/ccmiosimulator.cpython-312-x86_64-linux-gnu.so
(Remember tools use the C simulator by default when it is importable and the pure-Python simulators otherwise / with --python; a change to only one of them is a legitimate way to break an 'implementations agree' property.)

Deliverables, all inside {wt}/out/ (create it):
  1. patch.diff  - `git -C {wt} diff` of your source change (source files only, no tests, no .so files, nothing under out/).
  2. demo.py     - a small standalone program run as `cd {wt} && /venv/bin/python out/demo.py` that exits 0 and prints PASS on the unmodified tree and exits 1 and prints FAIL (with a short explanation) with your change applied. It must demonstrate the property violation through the project's public behaviour (tool main() functions, public classes), not by inspecting the changed line.
  3. notes.md    - 5-15 lines: what the change is, why it violates the property, exactly what is needed for it to manifest, and the pytest summary lines you observed before and after.
Verify all of it yourself: run demo.py and the full test suite with the change applied, then go to the clean tree with `git apply -R out/patch.diff` (NEVER use `git stash`: the stash is shared with other worktrees of this repository that other people are using at the same time) and confirm demo.py passes, then re-apply with `git apply out/patch.diff` and leave the worktree WITH the change applied (so that `git diff` equals patch.diff). Do not commit.

Reply with a 5-line summary (files changed, how it manifests, test results).""" + (('\n\nNote: an earlier, separate exercise already produced this kind of change: "%s". Choose a DIFFERENT mechanism / code site / clause of the property.' % avoid) if avoid else ''))
