#!/usr/bin/env python3
"""Regenerate the generated regions of DESIGN.md §9 (findings list from known_findings.json, seeded-change
catch matrix from seeded/*/meta.json + notes.md)."""
import glob, json, os, re
V = os.path.dirname(os.path.dirname(os.path.abspath(__file__)))


def findings():
    d = json.load(open(os.path.join(V, 'known_findings.json')))
    out = ['| property | status | key | what |', '|---|---|---|---|']
    for e in d['findings']:
        st = e['status'] + (' ' + e['commit'] if e.get('commit') else '')
        what = re.sub(r'^fixed: property=\S+ \S+ ', '', e['what']).replace('|', '\\|')
        out.append('| %s | %s | `%s`%s | %s |' % (e['property'], st, e['key'], ' (prefix)' if e.get('match') == 'prefix' else '', what))
    return '\n'.join(out)


def matrix():
    out = ['| seeded change | what it does (from its notes) | needs | caught by (quick tier) |', '|---|---|---|---|']
    for p in sorted(glob.glob(os.path.join(V, 'seeded', '*', 'meta.json'))):
        sid = os.path.basename(os.path.dirname(p))
        m = json.load(open(p))
        notes = ''
        np_ = os.path.join(os.path.dirname(p), 'notes.md')
        if os.path.isfile(np_):
            lines = [l.strip() for l in open(np_) if l.strip()]
            notes = re.sub(r'^#+\s*', '', lines[0]) if lines else ''
            notes = re.sub(r'^\S+ (mutation|mutant)( notes)?:?\s*', '', notes)
            if len(notes) < 25 and len(lines) > 1:
                notes = (notes + ' ' + lines[1]).strip()
        notes = notes.replace('|', '\\|')[:220]
        det = []
        for e in m.get('detected_by', []):
            if isinstance(e, dict):
                if e['verdict'] == 'VIOLATION':
                    det.append('**%s** (%s)' % (e['check'], ', '.join('`%s`' % k.rstrip(':') for k in e['violation_keys'][:2])))
                else:
                    det.append('%s: %s' % (e['check'], e['verdict']))
        needs = m.get('needs_short', '')
        out.append('| %s | %s | %s | %s |' % (sid, notes, needs, '; '.join(det) or 'not run yet'))
    return '\n'.join(out)


def main():
    p = os.path.join(V, 'DESIGN.md')
    s = open(p).read()
    for tag, fn in (('FINDINGS', findings), ('MATRIX', matrix)):
        a, b = '<!-- %s:BEGIN -->' % tag, '<!-- %s:END -->' % tag
        i, j = s.index(a), s.index(b)
        s = s[:i + len(a)] + '\n' + fn() + '\n' + s[j:]
    open(p, 'w').write(s)


if __name__ == '__main__':
    main()
