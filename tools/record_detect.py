#!/usr/bin/env python3
"""usage: record_detect.py <log>  -- parse the output of try_mutant.sh runs ('##### <seed dir name>' then
'== <check> on mutant ...' then OK/VIOLATION lines) and record in seeded/<seed>/meta.json which checks caught it."""
import json, os, re, sys
V = os.path.dirname(os.path.dirname(os.path.abspath(__file__)))
seed = chk = None
res = {}
for line in open(sys.argv[1]):
    line = line.rstrip('\n')
    m = re.match(r'##### (\S+)', line)
    if m:
        seed = m.group(1); continue
    m = re.match(r'== (\S+) on mutant', line)
    if m:
        chk = m.group(1); res.setdefault(seed, {}).setdefault(chk, {'verdict': None, 'keys': []}); continue
    if seed is None or chk is None:
        continue
    d = res[seed][chk]
    if line.startswith('VIOLATION'):
        d['verdict'] = 'VIOLATION'
    elif line.startswith('OK') and d['verdict'] is None:
        d['verdict'] = 'OK (missed)'
    elif line.startswith('MACHINERY'):
        d['verdict'] = 'MACHINERY-FAILURE'
    elif line.startswith('  ') and d['verdict'] == 'VIOLATION':
        k = line.strip().split(' ')[0]
        if k != '...' and len(d['keys']) < 4:
            d['keys'].append(k)
for seed, checks in res.items():
    p = os.path.join(V, 'seeded', seed, 'meta.json')
    meta = json.load(open(p))
    det = {e['check']: e for e in meta.get('detected_by', []) if isinstance(e, dict)}
    for c, d in checks.items():
        det[c] = {'check': c, 'tier': 'quick', 'verdict': d['verdict'], 'violation_keys': d['keys']}
    meta['detected_by'] = sorted(det.values(), key=lambda e: e['check'])
    json.dump(meta, open(p, 'w'), indent=1)
    print(seed, {c: d['verdict'] for c, d in checks.items()})
