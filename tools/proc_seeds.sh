#!/bin/bash
# usage: proc_seeds.sh <ID-rN>...   confirm, run against own check, record
cd /verif
for s in "$@"; do
  id=${s%%-*}
  tools/confirm_seed.sh $s 2>&1 | tail -2 | head -1 | cut -c1-220
  l=.work/mut_${s}.log; echo "##### $s" > $l
  tools/try_mutant.sh seeded/$s/patch.diff $id >> $l 2>&1
  echo "$s: $(grep -E '^(OK|VIOLATION|MACHINERY)' $l | head -1 | cut -c1-100) $(grep '^  ' $l | head -1 | cut -c1-100)"
  tools/record_detect.py $l
done
