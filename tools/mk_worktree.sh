#!/bin/sh
# usage: mk_worktree.sh <dir>   -- scratch git worktree of /repo HEAD with freshly built C modules
set -e
d="$1"
git -C /repo worktree add --detach "$d" HEAD >/dev/null 2>&1
inc=$(/venv/bin/python -c "import sysconfig;print(sysconfig.get_paths()['include'])")
gcc -O2 -shared -fPIC -I"$inc" "$d/c/csimulator.c" -o "$d/skoolkit/csimulator.cpython-312-x86_64-linux-gnu.so"
gcc -O2 -shared -fPIC -DCONTENTION -I"$inc" "$d/c/csimulator.c" -o "$d/skoolkit/ccmiosimulator.cpython-312-x86_64-linux-gnu.so"
echo "$d"
